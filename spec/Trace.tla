------------------------------- MODULE Trace -------------------------------
(***************************************************************************)
(* Per-step resynchronising trace validation.                              *)
(*                                                                         *)
(* The executor logs one record per public API call with the complete      *)
(* observable state after the call.  For record l the specification takes  *)
(* the OBSERVED state before the call (the post-state of the previous      *)
(* record of the same instance), applies the named action with the         *)
(* recorded script, and judges the record:                                 *)
(*                                                                         *)
(*   functional projections  - a named part of the observation must equal  *)
(*                             what the operational specification yields   *)
(*   monitors                - a predicate of Rules.tla evaluated on the   *)
(*                             observed data alone                         *)
(*                                                                         *)
(* Every failed judgement prints <<"DIFF", l, tag, expected, observed>>    *)
(* and the walk continues from what the code actually did, so one          *)
(* deviation cannot poison the judgement of later steps.  The only state   *)
(* carried by the specification itself is the lifecycle monitor of C03     *)
(* (`ent`), which deliberately spans the whole life of an instance.        *)
(***************************************************************************)
EXTENDS Rules, Json, IOUtils, TLCExt

T == ndJsonDeserialize(IOEnv.TRACE)

VARIABLES l, obs, ent, aux       \* aux[slot] : round structure of that instance's last call (for the replay monitor)

Slots == 0 .. 3

\* an observed state is <<TRUE, <<>>>> (no instance / never activated) or <<FALSE, snapshot record>>
BlankObs == <<TRUE, <<>>>>

\* observed snapshot -> machine record
FromObs(ob) ==
    IF ob[1] THEN Blank ELSE
    LET o == ob[2] IN
    [Blank EXCEPT !.act = o.act, !.res = o.res, !.req = o.req,
                  !.rem = { c \in Compos : o.rem[c] = 1 },
                  !.oreq = [x \in Orthos |-> { p \in 1 .. Len(o.oreq[x]) : o.oreq[x][p] = 1 }],
                  !.q = o.q, !.prev = o.prev, !.tt = o.tt,
                  !.plans = o.plans, !.pex = { r \in Regions : o.pex[r] = 1 },
                  !.succ = SetOfMask(o.succ), !.fail = SetOfMask(o.fail),
                  !.hst = [r \in Regions |-> [r |-> o.hst[r][1], ot |-> o.hst[r][2] = 1]],
                  !.sst = [r \in Regions |-> [r |-> o.sst[r][1], ot |-> o.sst[r][2] = 1]],
                  !.activity = o.hist, !.sa = o.strA, !.lg = o.lg = 1]

LastVec(m) == [s \in States |-> IF On(m) /\ m.tt[s] >= 1 /\ m.tt[s] <= Len(m.prev) THEN m.tt[s] ELSE 0]


\* machine record -> the fields the executor logs, in the executor's encoding; what an optional feature would
\* report is blank in builds without it (C15: nothing else may depend on the feature set)
ToObs(m) ==
    [ act |-> m.act, res |-> m.res, req |-> m.req,
      rem |-> [c \in Compos |-> IF c \in m.rem THEN 1 ELSE 0],
      oreq |-> [x \in Orthos |-> [p \in 1 .. St[OrthoHead(x)].width |-> IF p \in m.oreq[x] THEN 1 ELSE 0]],
      q |-> m.q,
      prev |-> IF Has("TRANSITION_HISTORY") THEN m.prev ELSE <<>>,
      tt   |-> IF Has("TRANSITION_HISTORY") THEN m.tt ELSE [s \in States |-> 0],
      last |-> IF Has("TRANSITION_HISTORY") THEN LastVec(m) ELSE [s \in States |-> 0],
      plans |-> IF Has("PLANS") THEN m.plans ELSE [r \in Regions |-> <<>>],
      pex |-> [r \in Regions |-> IF Has("PLANS") /\ r \in m.pex THEN 1 ELSE 0],
      succ |-> IF Has("PLANS") THEN MaskOfSet(m.succ) ELSE 0, fail |-> IF Has("PLANS") THEN MaskOfSet(m.fail) ELSE 0,
      hst |-> [r \in Regions |-> IF Has("PLANS") THEN <<m.hst[r].r, IF m.hst[r].ot THEN 1 ELSE 0>> ELSE <<0, 0>>],
      sst |-> [r \in Regions |-> IF Has("PLANS") THEN <<m.sst[r].r, IF m.sst[r].ot THEN 1 ELSE 0>> ELSE <<0, 0>>],
      tasks |-> IF Has("PLANS") THEN TotalTasks(m) ELSE 0,
      hist |-> IF Has("STRUCTURE_REPORT") THEN m.activity ELSE [s \in States |-> 0],
      strA |-> IF Has("STRUCTURE_REPORT") THEN m.sa ELSE 0 - 1,
      isA |-> ActiveMask(m), isR |-> ResumeMask(m), isS |-> ResumeMask(m), sub |-> SubList(m),
      pe |-> PendEMask(m), px |-> PendXMask(m), pc |-> PendCMask(m), on |-> On(m),
      lg |-> IF m.lg /\ HasLog THEN 1 ELSE 0 ]

Fields == { "act", "res", "req", "rem", "oreq", "q", "tt", "last", "plans", "pex", "succ", "fail",
            "hst", "sst", "tasks", "hist", "strA", "isA", "isR", "isS", "sub", "pe", "px", "pc", "on", "lg" }

Diff(n, tag, e, o) == IF e = o THEN TRUE ELSE PrintT(<<"DIFF", n, tag, e, o>>)
Fail(n, tag, d)    == PrintT(<<"DIFF", n, tag, "monitor", d>>)

---------------------------------------------------------------------------
(* projections of the callback list                                        *)

Map(seq, F(_)) == [i \in 1 .. Len(seq) |-> F(seq[i])]

IsLife(e)     == Base(e[2]) \in LifeMethods
IsGuard(e)    == Base(e[2]) \in GuardMethods
IsTraverse(e) == Base(e[2]) \in UpdateMethods \cup ReactMethods \cup {"query"}
IsPlanCb(e)   == e[2] \in PlanMethods
IsReport(e)   == e[2] \in ReportMethods
SeesConfig(e) == e[3] # 0 - 1

Who(e)        == <<e[1], e[2]>>
NoPay(r)      == <<r[1], r[2], r[3]>>
Pay(r)        == r[4]
GuardSees(e)  == <<e[1], e[2], Map(e[8], NoPay), Map(e[9], NoPay)>>
GuardPays(e)  == <<e[1], e[2], Map(e[8], Pay), Map(e[9], Pay)>>
GuardAsks(e)  == <<e[1], e[2], e[5], e[6], e[7]>>
GuardUnder(e) == <<e[1], e[2], e[11]>>
ConfigSeen(e) == <<e[1], e[2], e[3], e[4]>>
LifePays(e)   == <<e[1], e[2], Map(e[9], Pay)>>
\* every transition that should carry a payload is there, in place, with that payload (extra transitions are not a
\* payload matter)
Delivered(exp, seen) == \A i \in 1 .. Len(exp) : exp[i][4] # 0 => (i <= Len(seen) /\ seen[i] = exp[i])
SeesStatus(e) == e[10] # <<>>
StatusSeen(e) == <<e[1], e[2], e[10]>>

RECURSIVE Collapse(_, _)
Collapse(seq, i) == IF i > Len(seq) THEN <<>>
                    ELSE IF i > 1 /\ seq[i] = seq[i - 1] THEN Collapse(seq, i + 1) ELSE <<seq[i]>> \o Collapse(seq, i + 1)

\* what a callback saw is compared only where the same callbacks ran (who ran is a projection of its own)
CheckEvents(n, ev, obsEv) ==
    LET sameGuards == Map(SelectSeq(ev, IsGuard), Who) = Map(SelectSeq(obsEv, IsGuard), Who)
        sameLife   == Map(SelectSeq(ev, IsLife), Who) = Map(SelectSeq(obsEv, IsLife), Who)
        sameSeers  == Map(SelectSeq(ev, SeesConfig), Who) = Map(SelectSeq(obsEv, SeesConfig), Who)
    IN
    /\ Diff(n, "ev.traverse",       Map(SelectSeq(ev, IsTraverse), Who),        Map(SelectSeq(obsEv, IsTraverse), Who))
    \* the registry of requested prongs each guard round ran under (what the requests were resolved to)
    \* (where the same guards ran: per guard; else the distinct registries in the order the guards saw them - which
    \* guards ran is the guard procedure's matter, projection ev.guard)
    /\ IF sameGuards THEN Diff(n, "ev.guard.requested", Map(SelectSeq(ev, IsGuard), GuardUnder), Map(SelectSeq(obsEv, IsGuard), GuardUnder))
       ELSE Diff(n, "ev.guard.requested", Collapse(Map(SelectSeq(ev, IsGuard), LAMBDA e : e[11]), 1), Collapse(Map(SelectSeq(obsEv, IsGuard), LAMBDA e : e[11]), 1))
    /\ Diff(n, "ev.guard",          Map(SelectSeq(ev, IsGuard), Who),           Map(SelectSeq(obsEv, IsGuard), Who))
    /\ sameGuards => Diff(n, "ev.guard.pending",  Map(SelectSeq(ev, IsGuard), GuardSees),     Map(SelectSeq(obsEv, IsGuard), GuardSees))
    /\ sameGuards => Diff(n, "ev.guard.payload",  Map(SelectSeq(ev, IsGuard), GuardPays),     Map(SelectSeq(obsEv, IsGuard), GuardPays))
    /\ sameGuards => Diff(n, "ev.guard.queries",  Map(SelectSeq(ev, IsGuard), GuardAsks),     Map(SelectSeq(obsEv, IsGuard), GuardAsks))
    /\ sameSeers  => Diff(n, "ev.config",         Map(SelectSeq(ev, SeesConfig), ConfigSeen), Map(SelectSeq(obsEv, SeesConfig), ConfigSeen))
    /\ Diff(n, "ev.life",           Map(SelectSeq(ev, IsLife), Who),            Map(SelectSeq(obsEv, IsLife), Who))
    /\ sameLife   => Diff(n, "ev.life.payload",   Map(SelectSeq(ev, IsLife), LifePays),       Map(SelectSeq(obsEv, IsLife), LifePays))
    \* C14 : a payload that should have been seen differs or is missing (counted for C14 whatever else differs)
    /\ sameGuards =>
          LET ge == SelectSeq(ev, IsGuard)  go == SelectSeq(obsEv, IsGuard) IN
          IF \A i \in 1 .. Len(ge) : Delivered(ge[i][8], go[i][8]) /\ Delivered(ge[i][9], go[i][9]) THEN TRUE
          ELSE Diff(n, "mon.payload.guard", Map(ge, GuardPays), Map(go, GuardPays))
    /\ sameLife =>
          LET le == SelectSeq(ev, IsLife)  lo == SelectSeq(obsEv, IsLife) IN
          IF \A i \in 1 .. Len(le) : Delivered(le[i][9], lo[i][9]) THEN TRUE
          ELSE Diff(n, "mon.payload.life", Map(le, LifePays), Map(lo, LifePays))
    /\ sameSeers  => Diff(n, "ev.status",         Map(SelectSeq(ev, SeesStatus), StatusSeen), Map(SelectSeq(obsEv, SeesStatus), StatusSeen))
    /\ Diff(n, "ev.plan",           Map(SelectSeq(ev, IsPlanCb), Who),          Map(SelectSeq(obsEv, IsPlanCb), Who))
    /\ Diff(n, "ev.report",         Map(SelectSeq(ev, IsReport), Who),          Map(SelectSeq(obsEv, IsReport), Who))
    /\ Diff(n, "ev.all",            Map(ev, Who),                               Map(obsEv, Who))

---------------------------------------------------------------------------
(* monitors on the observed data                                           *)

ProcessingCall(a) == a[1] \in {"update", "react", "imm"}

\* C07 : the storage behind the plans (PlanDataT::taskBounds / taskLinks / tasks), read through the probe.
\* slots reached from slot i along `next` (stops at 0, at an index outside the pool, or after `fuel` steps)
RECURSIVE ChainFrom(_, _, _, _)
ChainFrom(tl, i, fuel, acc) ==
    IF i = 0 \/ fuel = 0 THEN acc
    ELSE IF i \notin 1 .. Len(tl) THEN Append(acc, i)
    ELSE ChainFrom(tl, tl[i][2], fuel - 1, Append(acc, i))
SeqRange(q) == { q[i] : i \in 1 .. Len(q) }
RECURSIVE SumLen(_, _)
SumLen(f, r) == IF r = 0 THEN 0 ELSE Len(f[r]) + SumLen(f, r - 1)

\* C05 : a phase of react() / query() stops as soon as a state consumes the event (handlers of that same state -
\* its own and the injected ones - still run; nobody else does)
OccAt(ev, i) == Cardinality({ j \in 1 .. i : ev[j][1] = ev[i][1] /\ ev[j][2] = ev[i][2] })
Consumes(rec, i) == LET ops == HookOps(rec.sc, rec.ev[i][1], rec.ev[i][2], OccAt(rec.ev, i))
                    IN \E j \in 1 .. Len(ops) : ops[j][1] = "consume"
ConsumeStops(n, rec) ==
    \A ph \in ReactMethods \cup {"query"} :
        LET ev  == rec.ev
            idx == { i \in 1 .. Len(ev) : Base(ev[i][2]) = ph }
            cs  == { i \in idx : Consumes(rec, i) }
        IN IF cs = {} THEN TRUE
           ELSE LET c == CHOOSE i \in cs : \A j \in cs : i <= j
                    late == { i \in idx : i > c /\ ev[i][1] # ev[c][1] }
                IN IF late = {} THEN TRUE
                   ELSE Fail(n, "mon.consume", <<ph, ev[c][1], { ev[i][1] : i \in late }>>)

\* C12 : what the logger is told about random resolutions, judged on the observed data alone (holds for any utility
\* arithmetic): every generator output consumed resolves one random region (never none), to a sub-state of the top
\* rank, and never to a plain sub-state of zero utility
ScRank(rec, k) == IF Overridden(k, "rank") THEN rec.sc.rank[k] ELSE 0
RandomClauses(n, rec) ==
    LET rn == SelectSeq(rec.log, LAMBDA r : r[1] = "rn" /\ r[3] # 0) IN
    /\ IF Len(rn) = rec.draws THEN TRUE ELSE Fail(n, "mon.random.count", <<rec.draws, rn>>)
    /\ \A i \in 1 .. Len(rn) :
          LET h == rn[i][2]  p == rn[i][3] IN
          IF h \notin States \/ p \notin 1 .. St[h].width THEN Fail(n, "mon.random.ids", rn[i])
          ELSE LET kid == Kid(h, p)
                   top == CHOOSE t \in { ScRank(rec, Kid(h, q)) : q \in 1 .. St[h].width } :
                              \A q \in 1 .. St[h].width : ScRank(rec, Kid(h, q)) <= t
               IN /\ IF ScRank(rec, kid) = top THEN TRUE ELSE Fail(n, "mon.random.rank", <<rn[i], top>>)
                  /\ IF St[kid].kind = "S" /\ Overridden(kid, "utility") /\ rec.sc.util[kid][1] = 0
                     THEN Fail(n, "mon.random.zero", rn[i]) ELSE TRUE

\* C05 : handlers injected through StateT<...> run right before the state's own handler on the way in / down (guards,
\* enter, reenter, pre and main phases) and right after it on the way out / up (exit, post phases); query is a main
\* phase (Rules!WithInjections).
\* D13 (open finding): S_::deepQuery calls the state's own query() before the injected ones
InjectionOrder(n, rec) ==
    LET ev == rec.ev IN
    \A i \in 1 .. Len(ev) :
        LET s == ev[i][1]  me == ev[i][2] IN
        IF s \notin Cfg.inj \/ Base(me) # me \/ me \in ReportMethods \cup PlanMethods THEN TRUE
        ELSE LET first == InjFirst(me) \/ me = "query"                   \* injected handler first (exit and the post phases: after)
                 j     == IF first THEN i - 1 ELSE i + 1
                 ok    == j \in 1 .. Len(ev) /\ ev[j][1] = s /\ ev[j][2] = "i_" \o me
             IN IF ok THEN TRUE
                ELSE Fail(n, IF me = "query" /\ i + 1 <= Len(ev) /\ ev[i + 1][1] = s /\ ev[i + 1][2] = "i_query"
                             THEN "mon.inj.order.D13" ELSE "mon.inj.order", <<i, s, me>>)

\* C13 : the sub-state reported resumable for a region is the one a subsequent resume of that region activates.
\* Judged on the observed data of a step whose only request is one external `resume d` that no callback touches
\* (no scripted hook at all) and that was applied: every composite region at or below d that was inactive before and
\* is active after - the regions the resume entered - has as active sub-state the one isResumable named before, else
\* the first.
ResumeAgrees(n, pre, rec) ==
    LET o0 == pre[2]  o1 == rec.post
        A0 == SetOfMask(o0.isA)  A1 == SetOfMask(o1.isA)  R0 == SetOfMask(o0.isR)
    IN \A c \in Compos :
          LET h == CompoHead(c) IN
          IF h \in A1 /\ h \notin A0 /\ h \in Subtree(rec.a[3])       \* (above the destination the path decides)
          THEN LET named == { p \in 1 .. St[h].width : Kid(h, p) \in R0 }
                   want  == IF named = {} THEN 1 ELSE CHOOSE p \in named : TRUE
               IN IF Cardinality(named) <= 1 /\ o1.act[c] = want THEN TRUE
                  ELSE Fail(n, "mon.resume", <<h, named, o1.act[c]>>)
          ELSE TRUE

PlanStorage(n, post) ==
    LET cap   == Len(post.tl)
        R     == 1 .. Len(post.tb)
        chain == [r \in R |-> ChainFrom(post.tl, post.tb[r][1], cap + 1, <<>>)]
        used  == UNION { SeqRange(chain[r]) : r \in R }
    IN
    \* every plan is an acyclic doubly linked list from taskBounds.first to taskBounds.last inside the pool ...
    /\ \A r \in R :
          LET ch == chain[r] IN
          IF /\ (post.tb[r][1] = 0) = (post.tb[r][2] = 0)
             /\ SeqRange(ch) \subseteq 1 .. cap
             /\ Cardinality(SeqRange(ch)) = Len(ch)
             /\ (ch # <<>> => ch[Len(ch)] = post.tb[r][2] /\ post.tl[ch[1]][1] = 0)
             /\ \A j \in 2 .. Len(ch) : post.tl[ch[j]][1] = ch[j - 1]
          THEN \* ... whose slots hold exactly the tasks the public iteration shows, in that order
               Diff(n, "mon.plan.iter", [j \in 1 .. Len(ch) |-> post.ts[ch[j]]], post.plans[r])
          ELSE Fail(n, "mon.plan.chain", <<r, post.tb[r], ch, post.tl>>)
    \* the regions' plans share no slot
    /\ IF \A r1, r2 \in R : r1 < r2 => SeqRange(chain[r1]) \cap SeqRange(chain[r2]) = {} THEN TRUE
       ELSE Fail(n, "mon.plan.disjoint", chain)
    \* their lengths add up to the number of stored tasks
    /\ IF SumLen(chain, Len(post.tb)) = post.tasks THEN TRUE ELSE Fail(n, "mon.plan.count", <<chain, post.tasks>>)
    \* a slot that belongs to no plan carries no links (append relies on it)
    /\ IF \A i \in (1 .. cap) \ used : post.tl[i] = <<0, 0>> THEN TRUE ELSE Fail(n, "mon.plan.free", <<used, post.tl>>)

Monitors(n, pre, m, rec, entered, src) ==
    LET post == rec.post  ev == rec.ev  run == BalancedRun(entered, ev) IN
    \* C01 : well-formed configuration after the call and inside every callback that can observe it
    /\ IF rec.a[1] = "del" THEN TRUE
       ELSE IF WellFormedObs(post.isA, post.sub) THEN TRUE ELSE Fail(n, "mon.wf.post", <<post.isA, post.sub>>)
    /\ \A i \in 1 .. Len(ev) :
          IF ev[i][3] = 0 - 1 THEN TRUE
          ELSE IF WellFormedObs(ev[i][3], ev[i][4]) THEN TRUE
          ELSE Fail(n, "mon.wf.ev", <<i, ev[i][1], ev[i][2], ev[i][3], ev[i][4]>>)
    \* C03 : lifecycle balance over the whole life of the instance
    /\ IF run.ok THEN TRUE ELSE Fail(n, "mon.balanced", <<run.at, ev[run.at][1], ev[run.at][2]>>)
    /\ IF (rec.a[1] = "exit" \/ (rec.a[1] = "del" /\ ~Cfg.manual)) /\ run.ent # {} THEN Fail(n, "mon.exited-all", run.ent) ELSE TRUE
    \* C04 : in a processing step every guard precedes every lifecycle callback
    /\ IF ProcessingCall(rec.a) /\ ~GuardsBeforeLife(ev) THEN Fail(n, "mon.guards-first", Map(ev, Who)) ELSE TRUE
    \* C04 : a fully vetoed step changes neither configuration nor runs lifecycle callbacks
    /\ IF Cfg.exact /\ ProcessingCall(rec.a) /\ ~pre[1] /\ FullyVetoed(m)
       THEN /\ Diff(n, "mon.veto.act", pre[2].act, post.act)
            /\ Diff(n, "mon.veto.res", pre[2].res, post.res)
            /\ Diff(n, "mon.veto.life", <<>>, Map(SelectSeq(ev, IsLife), Who))
       ELSE TRUE
    \* C05 : the update phases reach exactly the states that were active before the call
    /\ IF rec.a[1] = "update" /\ ~pre[1]
       THEN \A ph \in UpdateMethods :
              Diff(n, "mon.reach", { s \in SetOfMask(pre[2].isA) : Overridden(s, ph) },
                   { ev[i][1] : i \in { j \in 1 .. Len(ev) : ev[j][2] = ph } })
       ELSE TRUE
    /\ IF rec.a[1] \in {"react", "query"} /\ ~rec.quiet THEN ConsumeStops(n, rec) ELSE TRUE
    /\ IF Cfg.inj # {} /\ ~rec.quiet THEN InjectionOrder(n, rec) ELSE TRUE
    /\ IF rec.a[1] = "imm" /\ rec.a[2] = "resume" /\ ~pre[1] /\ rec.sc.hooks = <<>> /\ Len(rec.post.prev) = 1
          /\ Has("TRANSITION_HISTORY")
       THEN ResumeAgrees(n, pre, rec) ELSE TRUE
    \* C12 : random resolutions as the logger saw them (logger attached for the whole call)
    /\ IF ~rec.quiet /\ HasLog /\ rec.a[1] \notin {"logger", "del", "copy"}
          /\ (IF rec.a[1] = "new" THEN Len(rec.a) > 1 /\ rec.a[2] = 1 ELSE ~pre[1] /\ pre[2].lg = 1)
       THEN RandomClauses(n, rec) ELSE TRUE
    \* C02 / C04 : no requested prong, remain mark or orthogonal request bit survives a call (a stale one would steer
    \* the next transition into that region)
    /\ IF rec.a[1] = "del" THEN TRUE
       ELSE IF (\A c \in Compos : post.req[c] = 0 /\ post.rem[c] = 0) /\ (\A x \in Orthos : \A p \in 1 .. Len(post.oreq[x]) : post.oreq[x][p] = 0)
            THEN TRUE ELSE Fail(n, "mon.idle.req", <<post.req, post.rem, post.oreq>>)
    \* C13 : nothing pending between calls; isScheduled is isResumable
    /\ IF rec.a[1] = "del" THEN TRUE
       ELSE \* open finding D10: isPendingExit / isPendingChange evaluate `prong == active && prong != requested` /
            \* `requested != active` also for regions without any request; an answer that equals that formula on the
            \* OBSERVED state is the known finding, any other non-empty answer is not
            LET o == FromObs(<<FALSE, post>>) IN
            /\ IF post.pe = 0 THEN TRUE ELSE Fail(n, "mon.idle.pe", post.pe)
            /\ IF post.px = 0 THEN TRUE ELSE Fail(n, IF post.px = PendXMask(o) THEN "mon.idle.px.D10" ELSE "mon.idle.px", post.px)
            /\ IF post.pc = 0 THEN TRUE ELSE Fail(n, IF post.pc = PendCMask(o) THEN "mon.idle.pc.D10" ELSE "mon.idle.pc", post.pc)
            /\ IF post.isS = post.isR THEN TRUE ELSE Fail(n, "mon.scheduled", <<post.isS, post.isR>>)
    \* C08 : a load reproduces the saved configuration and delivers exit / enter to what stops / starts being active
    /\ IF rec.a[1] = "load" /\ UnpackBytes(Tail(rec.a))[1] = 1
       THEN LET saved == LoadRequested(Blank, 1, UnpackBytes(Tail(rec.a)), 2)[1]
                before == IF pre[1] THEN {} ELSE SetOfMask(pre[2].isA)
                after  == SetOfMask(post.isA)
                Got(me) == { ev[i][1] : i \in { j \in 1 .. Len(ev) : ev[j][2] = me } }
            IN /\ Diff(n, "mon.load.act", saved.req, post.act)
               /\ Diff(n, "mon.load.res", saved.res, post.res)
               /\ Diff(n, "mon.load.exit",  { s \in before \ after : Overridden(s, "exit") }, { s \in Got("exit")  : s \notin after })
               /\ Diff(n, "mon.load.enter", { s \in after \ before : Overridden(s, "enter") }, { s \in Got("enter") : s \notin before })
       ELSE TRUE
    \* C09 : replaying the authority's previousTransitions() on the replica reproduces its configuration
    \* (only when what is replayed IS the authority's list - the walks also replay over-long, padded lists - and, for the
    \* resumable marks, when the authority's step consisted of exactly one round)
    /\ IF rec.a[1] = "replay" /\ ~src[1][1] /\ ListOf(rec.a) = src[1][2].prev
       THEN /\ Diff(n, "mon.replay.act", src[1][2].act, post.act)
            /\ IF /\ Len(src[2]) = 1
                  /\ \A i \in 1 .. Len(src[2]) : \A j \in 1 .. Len(src[2][i][2]) : src[2][i][2][j][3] # "schedule"
               THEN Diff(n, "mon.replay.res", src[1][2].res, post.res) ELSE TRUE
       ELSE TRUE
    \* C07 : plan storage
    /\ IF rec.a[1] = "del" \/ ~Has("PLANS") THEN TRUE ELSE PlanStorage(n, post)
    \* C16 : the structure report mirrors isActive
    /\ IF rec.a[1] = "del" THEN TRUE
       ELSE IF post.strA = post.isA \/ ~Has("STRUCTURE_REPORT") THEN TRUE ELSE Fail(n, "mon.report", <<post.strA, post.isA>>)

\* fixtures whose utilities are floats (Cfg.exact = FALSE): the specification's exact arithmetic is no oracle for them,
\* so only the monitors - which judge the observed data alone - are evaluated (m is never computed)
CheckRecord(n, pre, m, rec, entered, src) ==
    IF ~Cfg.exact THEN Monitors(n, pre, m, rec, entered, src) ELSE
    /\ IF rec.a[1] = "del" THEN TRUE
       ELSE LET e == ToObs(m) IN
            /\ \A f \in Fields : Diff(n, f, e[f], rec.post[f])
            /\ Diff(n, "prev",         Map(e.prev, NoPay), Map(rec.post.prev, NoPay))
            /\ Diff(n, "prev.payload", Map(e.prev, Pay),   Map(rec.post.prev, Pay))
            /\ IF Delivered(e.prev, rec.post.prev) THEN TRUE
               ELSE Diff(n, "mon.payload.prev", Map(e.prev, Pay), Map(rec.post.prev, Pay))
            \* C14 : a state whose last transition should carry a payload reads exactly that transition (with that
            \* payload) through lastTransitionTo() afterwards
            /\ \A s \in States :
                  LET k  == e.last[s]
                      ko == rec.post.last[s]
                  IN IF k = 0 \/ k > Len(e.prev) THEN TRUE
                     ELSE IF Pay(e.prev[k]) = 0 THEN TRUE
                     ELSE IF ko >= 1 /\ ko <= Len(rec.post.prev) /\ rec.post.prev[ko] = e.prev[k] THEN TRUE
                     ELSE Diff(n, "mon.payload.last", <<s, e.prev[k]>>,
                               <<s, IF ko >= 1 /\ ko <= Len(rec.post.prev) THEN rec.post.prev[ko] ELSE <<>>>>)
    /\ CheckEvents(n, m.ev, rec.ev)
    /\ Diff(n, "draws", m.draws, rec.draws)
    /\ Diff(n, "plog", IF Has("PLANS") THEN m.plog ELSE <<>>, rec.plog)
    \* C16 : what the attached logger was told, by kind and as one interleaved sequence
    /\ Diff(n, "log.methods", SelectSeq(m.log, LAMBDA r : r[1] = "m"), SelectSeq(rec.log, LAMBDA r : r[1] = "m"))
    /\ Diff(n, "log.requests", SelectSeq(m.log, LAMBDA r : r[1] \in {"t", "cp"}), SelectSeq(rec.log, LAMBDA r : r[1] \in {"t", "cp"}))
    /\ Diff(n, "log.statuses", SelectSeq(m.log, LAMBDA r : r[1] \in {"ts", "ps"}), SelectSeq(rec.log, LAMBDA r : r[1] \in {"ts", "ps"}))
    /\ LET re == SelectSeq(m.log, LAMBDA r : r[1] \in {"sel", "ut", "rn"})
           ro == SelectSeq(rec.log, LAMBDA r : r[1] \in {"sel", "ut", "rn"})
           Key(r) == <<r[1], r[2], r[3]>>
       IN /\ Diff(n, "log.resolutions", Map(re, Key), Map(ro, Key))
          \* the same resolutions reported, with another utility / generator output: the value computed is C12's matter
          /\ Map(re, Key) = Map(ro, Key) => Diff(n, "log.utilities", re, ro)
    /\ Diff(n, "log.order", Map(m.log, LAMBDA r : IF r[1] \in {"ut", "rn"} THEN <<r[1], r[2], r[3]>> ELSE r),
                             Map(rec.log, LAMBDA r : IF r[1] \in {"ut", "rn"} THEN <<r[1], r[2], r[3]>> ELSE r))
    /\ IF rec.a[1] = "save" THEN Diff(n, "buf", Encode(m), rec.buf) ELSE TRUE
    /\ IF rec.a[1] \in {"replay", "replayenter"} THEN Diff(n, "ret", IF m.ok THEN 1 ELSE 0, rec.ret) ELSE TRUE
    /\ Diff(n, "badThis", <<>>, rec.badThis)
    /\ Diff(n, "badOrigin", <<>>, rec.badOrigin)
    /\ Diff(n, "asserts", <<>>, rec.asserts)
    /\ Diff(n, "allocs", 0, rec.allocs)
    /\ Monitors(n, pre, m, rec, entered, src)
    \* bookkeeping for the orchestration (not a judgement): was a round vetoed in this step?
    /\ IF \E i \in 1 .. Len(m.rounds) : m.rounds[i][1] = "vetoed" THEN PrintT(<<"NOTE", n, "vetoed">>) ELSE TRUE
    \* ... did user code edit a plan in this step?
    /\ IF m.plog # <<>> THEN PrintT(<<"NOTE", n, "planedit">>) ELSE TRUE
    \* ... did the plan executor go through a plan's tasks?
    /\ IF m.pexec THEN PrintT(<<"NOTE", n, "planexec">>) ELSE TRUE

\* silent comparison of everything the functional projections look at
Agrees(m, rec) ==
    /\ m.ev = rec.ev
    /\ m.draws = rec.draws
    /\ (IF Has("PLANS") THEN m.plog ELSE <<>>) = rec.plog
    /\ m.log = rec.log
    /\ rec.a[1] = "del" \/ (LET e == ToObs(m) IN (\A f \in Fields : e[f] = rec.post[f]) /\ e.prev = rec.post.prev)

PostOf(rec) == IF rec.a[1] = "del" THEN BlankObs ELSE <<FALSE, rec.post>>

TraceInit == l = 1 /\ obs = [i \in Slots |-> BlankObs] /\ ent = [i \in Slots |-> {}] /\ aux = [i \in Slots |-> <<>>]

TraceNext ==
    /\ l <= Len(T)
    /\ LET rec0 == T[l]
           pre == IF rec0.a[1] = "copy" THEN obs[rec0.a[2]] ELSE obs[rec0.i]
           m   == Step(FromObs(pre), rec0.a, rec0.sc)
           \* a quiet record (allocation measurement) carries no callback log: judge the rest against the expected one
           rec == IF rec0.quiet THEN [rec0 EXCEPT !.ev = m.ev, !.plog = IF Has("PLANS") THEN m.plog ELSE <<>>, !.log = m.log] ELSE rec0
           \* where an open finding's deviation switch mattered, the intended behaviour is acceptable too
           mI  == Step([FromObs(pre) EXCEPT !.dev = {}], rec.a, rec.sc)
           e0  == IF rec0.a[1] = "new" THEN {} ELSE IF rec0.a[1] = "copy" THEN ent[rec0.a[2]] ELSE ent[rec0.i]
           src == IF rec0.a[1] = "replay" THEN <<obs[rec0.a[2]], aux[rec0.a[2]]>> ELSE <<BlankObs, <<>>>>
           evs == IF rec0.quiet /\ Cfg.exact THEN m.ev ELSE rec0.ev
       IN /\ IF ~Cfg.exact THEN CheckRecord(l, pre, m, rec0, e0, src)
             ELSE IF m.notes = {} THEN CheckRecord(l, pre, m, rec, e0, src)
             ELSE IF Agrees(m, rec) THEN CheckRecord(l, pre, m, rec, e0, src) /\ PrintT(<<"NOTE", l, m.notes>>)
             ELSE IF Agrees(mI, rec) THEN CheckRecord(l, pre, mI, rec, e0, src)
             \* neither: judged against the code's known behaviour, so that the open finding does not show up as a
             \* second, unrelated difference of this record
             ELSE CheckRecord(l, pre, m, rec, e0, src)
          /\ aux' = [aux EXCEPT ![rec0.i] = IF Cfg.exact THEN m.rounds ELSE <<>>]
          /\ obs' = [obs EXCEPT ![rec0.i] = PostOf(rec0)]
          /\ ent' = [ent EXCEPT ![rec0.i] = BalancedRun(e0, evs).ent]
    /\ l' = l + 1

TraceSpec == TraceInit /\ [][TraceNext]_<<l, obs, ent, aux>>

\* printed once the whole file has been walked
Done == l > Len(T) => PrintT(<<"CHECKED", Len(T)>>)
===========================================================================
