------------------------------- MODULE Trace -------------------------------
(***************************************************************************)
(* Per-step resynchronising trace validation.                              *)
(*                                                                         *)
(* The executor logs one record per public API call with the complete      *)
(* observable state after the call.  For record l the specification takes  *)
(* the OBSERVED state before the call (the post-state of the previous      *)
(* record of the same instance), applies the named action with the         *)
(* recorded script, and compares every field.  Differences are printed     *)
(* as  <<"MISMATCH", l, field, expected, observed>>  and the walk goes on  *)
(* from what the code actually did.                                        *)
(***************************************************************************)
EXTENDS Hfsm, Json, IOUtils, TLCExt

T == ndJsonDeserialize(IOEnv.TRACE)

VARIABLES l, obs

Slots == 0 .. 3

\* an observed state is <<TRUE, <<>>>> (no instance / never activated) or <<FALSE, snapshot record>>
BlankObs == <<TRUE, <<>>>>

\* observed snapshot -> machine record
FromObs(ob) ==
    IF ob[1] THEN Blank ELSE
    LET o == ob[2] IN
    [Blank EXCEPT !.act = o.act, !.res = o.res, !.req = o.req,
                  !.rem = { c \in Compos : o.rem[c] = 1 },
                  !.oreq = [x \in Orthos |-> { p \in 1 .. Len(o.oreq[x]) : o.oreq[x][p] = 1 }],
                  !.q = o.q, !.prev = o.prev, !.tt = o.tt,
                  !.plans = o.plans, !.pex = { r \in Regions : o.pex[r] = 1 },
                  !.succ = SetOfMask(o.succ), !.fail = SetOfMask(o.fail),
                  !.hst = [r \in Regions |-> [r |-> o.hst[r][1], ot |-> o.hst[r][2] = 1]],
                  !.sst = [r \in Regions |-> [r |-> o.sst[r][1], ot |-> o.sst[r][2] = 1]],
                  !.activity = o.hist, !.sa = o.strA]

LastVec(m) == [s \in States |-> IF On(m) /\ m.tt[s] >= 1 /\ m.tt[s] <= Len(m.prev) THEN m.tt[s] ELSE 0]

\* machine record -> the fields the executor logs, in the executor's encoding
ToObs(m) ==
    [ act |-> m.act, res |-> m.res, req |-> m.req,
      rem |-> [c \in Compos |-> IF c \in m.rem THEN 1 ELSE 0],
      oreq |-> [x \in Orthos |-> [p \in 1 .. St[OrthoHead(x)].width |-> IF p \in m.oreq[x] THEN 1 ELSE 0]],
      q |-> m.q, prev |-> m.prev, tt |-> m.tt, last |-> LastVec(m),
      plans |-> m.plans, pex |-> [r \in Regions |-> IF r \in m.pex THEN 1 ELSE 0],
      succ |-> MaskOfSet(m.succ), fail |-> MaskOfSet(m.fail),
      hst |-> [r \in Regions |-> <<m.hst[r].r, IF m.hst[r].ot THEN 1 ELSE 0>>],
      sst |-> [r \in Regions |-> <<m.sst[r].r, IF m.sst[r].ot THEN 1 ELSE 0>>],
      tasks |-> TotalTasks(m), hist |-> m.activity, strA |-> m.sa,
      isA |-> ActiveMask(m), isR |-> ResumeMask(m), isS |-> ResumeMask(m), sub |-> SubList(m),
      pe |-> PendEMask(m), px |-> PendXMask(m), pc |-> PendCMask(m), on |-> On(m) ]

Fields == { "act", "res", "req", "rem", "oreq", "q", "prev", "tt", "last", "plans", "pex", "succ", "fail",
            "hst", "sst", "tasks", "hist", "strA", "isA", "isR", "isS", "sub", "pe", "px", "pc", "on" }

Cmp(n, f, e, o) == IF e = o THEN TRUE ELSE PrintT(<<"MISMATCH", n, f, e, o>>)

\* first index at which two event lists differ (0 = equal)
FirstDiff(a, b) ==
    LET n == IF Len(a) < Len(b) THEN Len(a) ELSE Len(b)
        ds == { i \in 1 .. n : a[i] # b[i] }
    IN  IF ds # {} THEN CHOOSE i \in ds : \A j \in ds : i <= j
        ELSE IF Len(a) # Len(b) THEN n + 1 ELSE 0

CheckRecord(n, m, rec) ==
    /\ IF rec.a[1] = "del" THEN TRUE
       ELSE LET e == ToObs(m) IN \A f \in Fields : Cmp(n, f, e[f], rec.post[f])
    /\ LET d == FirstDiff(m.ev, rec.ev) IN
       IF d = 0 THEN TRUE
       ELSE PrintT(<<"MISMATCH", n, "ev", d,
                     IF d <= Len(m.ev) THEN m.ev[d] ELSE <<"end">>,
                     IF d <= Len(rec.ev) THEN rec.ev[d] ELSE <<"end">>>>)
    /\ Cmp(n, "draws", m.draws, rec.draws)
    /\ Cmp(n, "badThis", <<>>, rec.badThis)
    /\ Cmp(n, "badOrigin", <<>>, rec.badOrigin)
    /\ Cmp(n, "asserts", <<>>, rec.asserts)

PostOf(rec) == IF rec.a[1] = "del" THEN BlankObs ELSE <<FALSE, rec.post>>

TraceInit == l = 1 /\ obs = [i \in Slots |-> BlankObs]

TraceNext ==
    /\ l <= Len(T)
    /\ LET rec == T[l]
           pre == FromObs(obs[rec.i])
           m   == Step(pre, rec.a, rec.sc)
       IN /\ CheckRecord(l, m, rec)
          /\ obs' = [obs EXCEPT ![rec.i] = PostOf(rec)]
    /\ l' = l + 1

TraceSpec == TraceInit /\ [][TraceNext]_<<l, obs>>

\* printed once the whole file has been walked
Done == l > Len(T) => PrintT(<<"CHECKED", Len(T)>>)
===========================================================================
