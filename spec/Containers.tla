----------------------------- MODULE Containers -----------------------------
(***************************************************************************)
(* Ideal semantics of the fixed-capacity task pool (TaskListT) and of the  *)
(* bounded array used for transition sets (DynamicArrayT).                 *)
(*                                                                         *)
(* The pool is a set of live items; which free slot an insertion returns   *)
(* is the implementation's choice, so operations address live items by     *)
(* their age ("the k-th oldest live item") and the harness checks that     *)
(* every returned slot is free at the time.  TLC enumerates every valid    *)
(* operation sequence up to a depth bound and computes, after each         *)
(* operation, what must be observable: success flag, count, live contents. *)
(***************************************************************************)
EXTENDS Naturals, Sequences, FiniteSets, TLC, Json

RemoveAt(s, k) == SubSeq(s, 1, k - 1) \o SubSeq(s, k + 1, Len(s))

\* pool state: [live |-> sequence of values, oldest first; next |-> next value to insert]
PoolInit == [live |-> <<>>, next |-> 1]

PoolOps(cap, st) == {<<"E">>, <<"C">>} \cup { <<"R", k>> : k \in 1 .. Len(st.live) }

\* <<new state, observation>> ; observation = <<ok, count, live contents>>
PoolApply(cap, st, op) ==
    CASE op[1] = "E" ->
            IF Len(st.live) < cap
            THEN LET s2 == [live |-> Append(st.live, st.next), next |-> st.next + 1] IN <<s2, <<1, Len(s2.live), s2.live>>>>
            ELSE <<[st EXCEPT !.next = @ + 1], <<0, Len(st.live), st.live>>>>
      [] op[1] = "R" -> LET s2 == [st EXCEPT !.live = RemoveAt(@, op[2])] IN <<s2, <<1, Len(s2.live), s2.live>>>>
      [] op[1] = "C" -> LET s2 == [st EXCEPT !.live = <<>>] IN <<s2, <<1, 0, <<>>>>>>

\* all valid operation sequences of exactly `depth` operations, each with the observations along the way
RECURSIVE PoolRuns(_, _, _, _, _)
PoolRuns(cap, st, depth, ops, obs) ==
    IF depth = 0 THEN { [cap |-> cap, ops |-> ops, obs |-> obs] }
    ELSE UNION { LET r == PoolApply(cap, st, op) IN PoolRuns(cap, r[1], depth - 1, Append(ops, op), Append(obs, r[2]))
                 : op \in PoolOps(cap, st) }

\* a given operation sequence (k taken modulo the number of live items; removal from an empty pool is skipped)
RECURSIVE PoolRun(_, _, _, _, _)
PoolRun(cap, st, ops, i, obs) ==
    IF i > Len(ops) THEN obs
    ELSE LET op == ops[i] IN
         IF op[1] = "R" /\ Len(st.live) = 0 THEN PoolRun(cap, st, ops, i + 1, Append(obs, <<0 - 1, 0, <<>>>>))
         ELSE LET op2 == IF op[1] = "R" THEN <<"R", ((op[2] - 1) % Len(st.live)) + 1>> ELSE op
                  r   == PoolApply(cap, st, op2)
              IN PoolRun(cap, r[1], ops, i + 1, Append(obs, r[2]))

---------------------------------------------------------------------------
(* bounded array: a sequence of at most cap items                           *)

Trunc(s, cap) == IF Len(s) <= cap THEN s ELSE SubSeq(s, 1, cap)

\* ops: <<"E", v>> append | <<"C">> clear | <<"P", <<vs>>>> bulk append (+=) | <<"A", <<vs>>>> assign a copy of another array
ArrayApply(cap, s, op) ==
    CASE op[1] = "E" -> Trunc(Append(s, op[2]), cap)
      [] op[1] = "C" -> <<>>
      [] op[1] = "P" -> Trunc(s \o op[2], cap)
      [] op[1] = "A" -> Trunc(op[2], cap)

RECURSIVE ArrayRun(_, _, _, _, _)
ArrayRun(cap, s, ops, i, obs) ==
    IF i > Len(ops) THEN obs
    ELSE LET s2 == ArrayApply(cap, s, ops[i]) IN ArrayRun(cap, s2, ops, i + 1, Append(obs, s2))
=============================================================================
