-------------------------------- MODULE Prng --------------------------------
(***************************************************************************)
(* Reference definitions of the generators bundled with hfsm2, written     *)
(* from the PUBLISHED algorithms (Vigna: splitmix64, xoshiro256+,          *)
(* xoshiro256**, xoshiro128+, xoshiro128**, with their jump polynomials;   *)
(* the 32-bit seeder is the murmur3-finaliser variant of splitmix).        *)
(* A w-bit word is a sequence of 16-bit limbs, least significant first (TLC *)
(* integers are 32-bit signed).                                            *)
(***************************************************************************)
EXTENDS Naturals, Sequences, TLC, TLCExt, Json, Bitwise

\* a word is a sequence of 16-bit limbs, least significant first (4 limbs = 64 bit, 2 limbs = 32 bit)
B == 65536
Zero(w)      == [i \in 1 .. w \div 16 |-> 0]
Limb(a, i)   == IF i >= 1 /\ i <= Len(a) THEN a[i] ELSE 0
WXor(a, b)    == [i \in 1 .. Len(a) |-> a[i] ^^ b[i]]
WOr(a, b)     == [i \in 1 .. Len(a) |-> a[i] | b[i]]
ShR(a, k)    == LET q == k \div 16  r == k % 16 IN
                [i \in 1 .. Len(a) |-> (Limb(a, i + q) \div (2 ^ r)) + (Limb(a, i + q + 1) % (2 ^ r)) * (2 ^ (16 - r))]
ShL(a, k)    == LET q == k \div 16  r == k % 16 IN
                [i \in 1 .. Len(a) |-> ((Limb(a, i - q) % (2 ^ (16 - r))) * (2 ^ r)) + (Limb(a, i - q - 1) \div (2 ^ (16 - r)))]
Rotl(a, k)   == WOr(ShL(a, k), ShR(a, 16 * Len(a) - k))
IsZero(a)    == \A i \in 1 .. Len(a) : a[i] = 0

Add(a, b) ==
    LET RECURSIVE G(_, _)
        G(i, c) == IF i > Len(a) THEN <<>> ELSE <<(a[i] + b[i] + c) % B>> \o G(i + 1, (a[i] + b[i] + c) \div B)
    IN G(1, 0)

\* multiplication modulo 2^w on bytes (products stay far below 2^31)
Bytes(a)     == [i \in 1 .. 2 * Len(a) |-> IF i % 2 = 1 THEN a[(i + 1) \div 2] % 256 ELSE a[i \div 2] \div 256]
OfBytes(bs)  == [i \in 1 .. Len(bs) \div 2 |-> bs[2 * i - 1] + 256 * bs[2 * i]]
Mul(a, b) ==
    LET x == Bytes(a)  y == Bytes(b)  n == Len(x)
        Col(k) == LET RECURSIVE S(_)
                      S(i) == IF i > k THEN 0 ELSE x[i] * y[k - i + 1] + S(i + 1)
                  IN S(1)
        RECURSIVE C(_, _)
        C(k, carry) == IF k > n THEN <<>> ELSE LET t == Col(k) + carry IN <<t % 256>> \o C(k + 1, t \div 256)
    IN OfBytes(C(1, 0))

OfLimbs(ls)  == ls
ToLimbs(a)   == a
SmallConst(w, n) == [i \in 1 .. w \div 16 |-> IF i = 1 THEN n % B ELSE IF i = 2 THEN n \div B ELSE 0]      \* n < 2^31
BitOf(a, b)  == (a[((b - 1) \div 16) + 1] \div (2 ^ ((b - 1) % 16))) % 2       \* bit b (1-based, least significant first)

---------------------------------------------------------------------------
(* constants, as limbs (generated from the published hexadecimal values in the comments by tools; see c20.py) *)
GOLDEN64 == OfLimbs(<<31765, 32586, 31161, 40503>>)        \* 0x9e3779b97f4a7c15
MIX64A   == OfLimbs(<<58809, 7396, 18285, 48984>>)        \* 0xbf58476d1ce4e5b9
MIX64B   == OfLimbs(<<4587, 4913, 18875, 38096>>)        \* 0x94d049bb133111eb
GOLDEN32 == OfLimbs(<<31161, 40503>>)        \* 0x9e3779b9
MIX32A   == OfLimbs(<<51819, 34283>>)        \* 0x85ebca6b
MIX32B   == OfLimbs(<<44597, 49842>>)        \* 0xc2b2ae35
JUMP64   == << OfLimbs(<<2746, 15613, 50899, 6158>>),
               OfLimbs(<<14636, 61641, 4710, 54694>>),
               OfLimbs(<<51626, 57407, 9752, 43352>>),
               OfLimbs(<<26140, 10673, 56389, 14763>>) >>   \* 0x180ec6d33cfd0aba 0xd5a61266f0c9392c 0xa9582618e03fc9aa 0x39abdc4529b1661c
JUMP32   == << OfLimbs(<<11, 34660>>),
               OfLimbs(<<53971, 62786>>),
               OfLimbs(<<13763, 28576>>),
               OfLimbs(<<56155, 30706>>) >>   \* 0x8764000b 0xf542d2d3 0x6fa035c3 0x77f2db5b

---------------------------------------------------------------------------
(* splitmix : <<new state, output>>                                        *)
SplitMix64(s) ==
    LET s1 == Add(s, GOLDEN64)
        z1 == Mul(WXor(s1, ShR(s1, 30)), MIX64A)
        z2 == Mul(WXor(z1, ShR(z1, 27)), MIX64B)
    IN <<s1, WXor(z2, ShR(z2, 31))>>
SplitMix32(s) ==
    LET s1 == Add(s, GOLDEN32)
        z1 == Mul(WXor(s1, ShR(s1, 16)), MIX32A)
        z2 == Mul(WXor(z1, ShR(z1, 13)), MIX32B)
    IN <<s1, WXor(z2, ShR(z2, 16))>>
Split(w, s) == IF w = 64 THEN SplitMix64(s) ELSE SplitMix32(s)

\* seeding routine of the library: the first four NON-ZERO outputs of splitmix
RECURSIVE NonZero(_, _)
NonZero(w, s) == LET r == Split(w, s) IN IF IsZero(r[2]) THEN NonZero(w, r[1]) ELSE r
SeedState(w, seed) ==
    LET a == NonZero(w, seed)  b == NonZero(w, a[1])  c == NonZero(w, b[1])  d == NonZero(w, c[1])
    IN <<a[2], b[2], c[2], d[2]>>

---------------------------------------------------------------------------
(* xoshiro : state = <<s0, s1, s2, s3>> ; <<new state, output>>            *)
Advance(w, st) ==
    LET t  == ShL(st[2], IF w = 64 THEN 17 ELSE 9)
        s2 == WXor(st[3], st[1])
        s3 == WXor(st[4], st[2])
        s1 == WXor(st[2], s2)
        s0 == WXor(st[1], s3)
    IN TLCEval(<<s0, s1, WXor(s2, t), Rotl(s3, IF w = 64 THEN 45 ELSE 11)>>)
Plus(w, st)     == <<Advance(w, st), Add(st[1], st[4])>>
StarStar(w, st) == <<Advance(w, st), Mul(Rotl(Mul(st[2], SmallConst(w, 5)), 7), SmallConst(w, 9))>>
Next(kind, w, st) == IF kind = "plus" THEN Plus(w, st) ELSE StarStar(w, st)

RECURSIVE Outputs(_, _, _, _)
Outputs(kind, w, st, n) == IF n = 0 THEN <<>> ELSE LET r == TLCEval(Next(kind, w, st)) IN <<r[2]>> \o Outputs(kind, w, r[1], n - 1)
RECURSIVE StateAfter(_, _, _, _)
StateAfter(kind, w, st, n) == IF n = 0 THEN st ELSE StateAfter(kind, w, TLCEval(Next(kind, w, st)[1]), n - 1)

Jump(kind, w, st) ==
    LET J == IF w = 64 THEN JUMP64 ELSE JUMP32
        RECURSIVE Go(_, _, _, _)
        Go(i, b, cur, acc) ==
            IF i > 4 THEN acc
            ELSE IF b > w THEN Go(i + 1, 1, cur, acc)
            ELSE LET acc2 == IF BitOf(J[i], b) = 1 THEN <<WXor(acc[1], cur[1]), WXor(acc[2], cur[2]), WXor(acc[3], cur[3]), WXor(acc[4], cur[4])>> ELSE acc
                 IN Go(i, b + 1, TLCEval(Next(kind, w, cur)[1]), TLCEval(acc2))
    IN Go(1, 1, st, <<Zero(w), Zero(w), Zero(w), Zero(w)>>)

\* uniform(): the exact dyadic rational the float / double conversion yields : <<numerator limbs, exponent>>,
\* value = numerator / 2^exponent  (float: top 23 bits / 2^23 ; double: top 52 bits / 2^52)
Uniform32(x32) == <<ShR(x32, 9), 23>>
Uniform64(x64) == <<ShR(x64, 12), 52>>

---------------------------------------------------------------------------
(* Walking the harness records as a behaviour: one TLC step per generator   *)
(* step (TLC evaluates operator arguments lazily, so long recursions over   *)
(* the generator state are written as a state machine instead).             *)
(* rec = [kind, w, seed, state (4 words), out (n words), jstate, jout]      *)

VARIABLES r,      \* index of the record being checked
          ph,     \* "out" | "jump" | "jout"
          st,     \* generator state (reference)
          k,      \* position inside the phase
          acc     \* jump accumulator
pvars == <<r, ph, st, k, acc>>

Report(i, what, e, o) == IF e = o THEN TRUE ELSE PrintT(<<"DIFF", i, what, e, o>>)

Begin(T, i) ==
    IF i > Len(T) THEN /\ ph' = "done" /\ st' = <<>> /\ k' = 0 /\ acc' = <<>>
    ELSE LET rec == T[i]  s0 == SeedState(rec.w, rec.seed) IN
         /\ Report(i, "seeded state", s0, rec.state)
         /\ IF \A j \in 1 .. 4 : ~IsZero(rec.state[j]) THEN TRUE ELSE PrintT(<<"DIFF", i, "zero state word", rec.state>>)
         /\ ph' = "out" /\ st' = s0 /\ k' = 1 /\ acc' = <<Zero(rec.w), Zero(rec.w), Zero(rec.w), Zero(rec.w)>>

WalkInit(T) == r = 1 /\ ph = "start" /\ st = <<>> /\ k = 0 /\ acc = <<>>

WalkStep(T) ==
    \/ /\ ph = "start" /\ Begin(T, r) /\ UNCHANGED r
    \/ /\ ph = "out"
       /\ LET rec == T[r] IN
          IF k > Len(rec.out) THEN ph' = "jump" /\ k' = 1 /\ UNCHANGED <<r, st, acc>>
          ELSE LET nx == Next(rec.kind, rec.w, st) IN
               /\ Report(r, "output", <<k, nx[2]>>, <<k, rec.out[k]>>)
               /\ st' = nx[1] /\ k' = k + 1 /\ UNCHANGED <<r, ph, acc>>
    \/ /\ ph = "jump"
       /\ LET rec == T[r]  w == rec.w  J == IF w = 64 THEN JUMP64 ELSE JUMP32 IN
          IF k > 4 * w
          THEN /\ Report(r, "state after jump", acc, rec.jstate)
               /\ ph' = "jout" /\ st' = acc /\ k' = 1 /\ UNCHANGED <<r, acc>>
          ELSE LET i == ((k - 1) \div w) + 1  b == ((k - 1) % w) + 1 IN
               /\ acc' = IF BitOf(J[i], b) = 1
                         THEN <<WXor(acc[1], st[1]), WXor(acc[2], st[2]), WXor(acc[3], st[3]), WXor(acc[4], st[4])>> ELSE acc
               /\ st' = Next(rec.kind, w, st)[1] /\ k' = k + 1 /\ UNCHANGED <<r, ph>>
    \/ /\ ph = "jout"
       /\ LET rec == T[r] IN
          IF k > Len(rec.jout) THEN PrintT(<<"OK", r>>) /\ r' = r + 1 /\ ph' = "start" /\ UNCHANGED <<st, k, acc>>
          ELSE LET nx == Next(rec.kind, rec.w, st) IN
               /\ Report(r, "output after jump", <<k, nx[2]>>, <<k, rec.jout[k]>>)
               /\ st' = nx[1] /\ k' = k + 1 /\ UNCHANGED <<r, ph, acc>>
=============================================================================
