-------------------------------- MODULE Bits --------------------------------
(***************************************************************************)
(* Ideal semantics of hfsm2::detail::BitArrayT<CAP> (a set of indices      *)
(* 0..CAP-1), its byte-aligned views Bits/CBits(unit, width), and of the   *)
(* bit streams BitWriteStreamT / BitReadStreamT (a sequence of bits,       *)
(* written and read LSB-first).  TLC enumerates (state, operation) pairs   *)
(* and prints the expected result of each; the harness replays every pair  *)
(* on the real templates.                                                  *)
(***************************************************************************)
EXTENDS Naturals, Sequences, FiniteSets, TLC, Json

\* ---- bit array -------------------------------------------------------------
Idx(cap)       == 0 .. cap - 1
ViewRange(u, w) == { u * 8 + j : j \in 0 .. w - 1 }

\* op = <<name, args...>>; result = [bits |-> new set, out |-> observable answer (0/1, -1 = none)]
ArrayApply(cap, bits, op) ==
    CASE op[1] = "set"      -> [bits |-> bits \cup {op[2]}, out |-> 0 - 1]
      [] op[1] = "clear"    -> [bits |-> bits \ {op[2]},    out |-> 0 - 1]
      [] op[1] = "get"      -> [bits |-> bits, out |-> IF op[2] \in bits THEN 1 ELSE 0]
      [] op[1] = "setall"   -> [bits |-> Idx(cap), out |-> 0 - 1]
      [] op[1] = "clearall" -> [bits |-> {}, out |-> 0 - 1]
      [] op[1] = "empty"    -> [bits |-> bits, out |-> IF bits = {} THEN 1 ELSE 0]
      \* two-step sequences that expose bits outside 0..cap-1: set-all, clear every index, then empty();
      \* set-all, then compare with an array in which every index was set individually
      [] op[1] = "fill_clear_empty" -> [bits |-> {}, out |-> 1]
      [] op[1] = "fill_ne_full"     -> [bits |-> Idx(cap), out |-> 0]
      \* op[2] : the other array as a sequence of its set indices
      [] op[1] = "and"      -> [bits |-> bits \cap { op[2][i] : i \in 1 .. Len(op[2]) }, out |-> 0 - 1]
      [] op[1] = "ne"       -> [bits |-> bits, out |-> IF bits # { op[2][i] : i \in 1 .. Len(op[2]) } THEN 1 ELSE 0]
      \* views: <<name, unit, width, index>>
      [] op[1] = "vget"     -> [bits |-> bits, out |-> IF op[2] * 8 + op[4] \in bits THEN 1 ELSE 0]
      [] op[1] = "vset"     -> [bits |-> bits \cup {op[2] * 8 + op[4]}, out |-> 0 - 1]
      [] op[1] = "vclear"   -> [bits |-> bits \ {op[2] * 8 + op[4]},    out |-> 0 - 1]
      [] op[1] = "vclearall" -> [bits |-> bits \ ViewRange(op[2], op[3]), out |-> 0 - 1]
      [] op[1] = "vbool"    -> [bits |-> bits, out |-> IF bits \cap ViewRange(op[2], op[3]) # {} THEN 1 ELSE 0]

SeqOfSet(S) == LET RECURSIVE F(_)
                   F(T) == IF T = {} THEN <<>> ELSE LET x == CHOOSE y \in T : \A z \in T : y <= z IN <<x>> \o F(T \ {x})
               IN F(S)

ArrayOps(cap, others) ==
    { <<"set", i>> : i \in Idx(cap) } \cup { <<"clear", i>> : i \in Idx(cap) } \cup { <<"get", i>> : i \in Idx(cap) }
    \cup { <<"setall">>, <<"clearall">>, <<"empty">>, <<"fill_clear_empty">>, <<"fill_ne_full">> }
    \cup { <<"and", SeqOfSet(o)>> : o \in others } \cup { <<"ne", SeqOfSet(o)>> : o \in others }
    \cup UNION { UNION { { <<"vget", u, w, j>> : j \in 0 .. w - 1 } \cup { <<"vset", u, w, j>> : j \in 0 .. w - 1 }
                         \cup { <<"vclear", u, w, j>> : j \in 0 .. w - 1 } \cup { <<"vclearall", u, w>>, <<"vbool", u, w>> }
                         : w \in 1 .. cap - u * 8 } : u \in 0 .. (cap - 1) \div 8 }

\* one test vector per (state, op)
ArrayCase(cap, bits, op) ==
    LET r == ArrayApply(cap, bits, op) IN
    [cap |-> cap, src |-> SeqOfSet(bits), op |-> op, dst |-> SeqOfSet(r.bits), out |-> r.out]

\* ---- bit streams -------------------------------------------------------------
BitsOfValue(v, w) == [i \in 1 .. w |-> (v \div (2 ^ (i - 1))) % 2]
ValueOfBits(b)    == LET RECURSIVE V(_)
                         V(i) == IF i > Len(b) THEN 0 ELSE b[i] * (2 ^ (i - 1)) + V(i + 1)
                     IN V(1)

\* writes : sequence of <<width, value as a sequence of bits (LSB first)>> ; values are bit sequences because
\* TLC integers are 32-bit signed
StreamAfter(writes) == LET RECURSIVE C(_)
                           C(i) == IF i > Len(writes) THEN <<>> ELSE writes[i][2] \o C(i + 1)
                       IN C(1)
BytesOf(bits, nbytes) ==
    [b \in 1 .. nbytes |->
        LET RECURSIVE V(_)
            V(i) == IF i > 8 THEN 0
                    ELSE (IF (b - 1) * 8 + i <= Len(bits) THEN bits[(b - 1) * 8 + i] * (2 ^ (i - 1)) ELSE 0) + V(i + 1)
        IN V(1)]

StreamCase(start, writes, capBits) ==
    \* `start` zero bits are written first (one write of width start) to move the cursor off the byte boundary
    LET pre  == IF start = 0 THEN <<>> ELSE << <<start, [i \in 1 .. start |-> 0]>> >>
        all  == pre \o writes
        bits == StreamAfter(all)
    IN [start |-> start, writes |-> writes, cursor |-> Len(bits),
        bytes |-> BytesOf(bits, (capBits + 7) \div 8)]
=============================================================================
