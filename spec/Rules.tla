------------------------------- MODULE Rules -------------------------------
(***************************************************************************)
(* Declarative layer: what the listed properties promise, stated without   *)
(* the algorithm (no remain bits, no backups, no phases).  Used            *)
(*   - by TLC on the bounded models: operational layer |= rules            *)
(*   - by the trace specification as monitors over observed data.          *)
(***************************************************************************)
EXTENDS Hfsm

---------------------------------------------------------------------------
(* C01 : well-formed configuration, as reported through isActive /         *)
(*       activeSubState (mask over states, list over composite regions)    *)

WellFormedObs(aMask, sub) ==
    LET A(s) == InMask(aMask, s) IN
    /\ \A s \in States : Par(s) # 0 /\ A(s) => A(Par(s))
    /\ \A c \in Compos :
          LET h == CompoHead(c)
              activeKids == { p \in 1 .. St[h].width : A(Kid(h, p)) }
          IN IF A(h) THEN activeKids = {sub[c]}                  \* exactly one, and activeSubState names it
             ELSE activeKids = {}
    /\ \A o \in Orthos :
          LET h == OrthoHead(o) IN
          A(h) => \A p \in 1 .. St[h].width : A(Kid(h, p))

WellFormed(m) == WellFormedObs(ActiveMask(m), SubList(m))

---------------------------------------------------------------------------
(* C03 : lifecycle callbacks balanced and nested.  `entered` is the set of *)
(*       states whose enter() ran without a matching exit().               *)

RECURSIVE NearestUser(_)
NearestUser(s) == IF Par(s) = 0 THEN 0 ELSE IF HasUser(Par(s)) THEN Par(s) ELSE NearestUser(Par(s))

NeedsEntered == UpdateMethods \cup ReactMethods \cup PlanMethods \cup {"query", "reenter", "exitGuard", "exit"}

BalancedStep(ent, e) ==          \* [ok, ent]
    LET s == e[1]  me == e[2] IN
    IF Len(me) > 2 /\ SubSeq(me, 1, 2) = "i_" THEN [ok |-> TRUE, ent |-> ent]        \* injected handlers follow their state
    ELSE IF me = "enter" THEN
        [ok |-> s \notin ent /\ (NearestUser(s) = 0 \/ NearestUser(s) \in ent), ent |-> ent \cup {s}]
    ELSE IF me = "exit" THEN
        [ok |-> s \in ent /\ \A t \in ent : s \notin Ancestors(t), ent |-> ent \ {s}]
    ELSE IF me \in NeedsEntered THEN [ok |-> s \in ent, ent |-> ent]
    ELSE [ok |-> TRUE, ent |-> ent]

BalancedRun(entered, ev) ==      \* [ok, at (index of the first offending event), ent]
    LET RECURSIVE Go(_, _)
        Go(i, ent) ==
            IF i > Len(ev) THEN [ok |-> TRUE, at |-> 0, ent |-> ent]
            ELSE LET r == BalancedStep(ent, ev[i]) IN
                 IF r.ok THEN Go(i + 1, r.ent)
                 ELSE LET rest == Go(i + 1, r.ent) IN [ok |-> FALSE, at |-> i, ent |-> rest.ent]
    IN Go(1, entered)

---------------------------------------------------------------------------
(* C04 : guards precede any change                                         *)

GuardsBeforeLife(ev) ==
    \A i, j \in 1 .. Len(ev) :
        Base(ev[i][2]) \in GuardMethods /\ Base(ev[j][2]) \in LifeMethods => i < j

===========================================================================
