------------------------------- MODULE Rules -------------------------------
(***************************************************************************)
(* Declarative layer: what the listed properties promise, stated without   *)
(* the algorithm (no remain bits, no backups, no phases).  Used            *)
(*   - by TLC on the bounded models: operational layer |= rules            *)
(*   - by the trace specification as monitors over observed data.          *)
(***************************************************************************)
EXTENDS Hfsm

---------------------------------------------------------------------------
(* C01 : well-formed configuration, as reported through isActive /         *)
(*       activeSubState (mask over states, list over composite regions)    *)

WellFormedObs(aMask, sub) ==
    LET A(s) == InMask(aMask, s) IN
    /\ \A s \in States : Par(s) # 0 /\ A(s) => A(Par(s))
    /\ \A c \in Compos :
          LET h == CompoHead(c)
              activeKids == { p \in 1 .. St[h].width : A(Kid(h, p)) }
          IN IF A(h) THEN activeKids = {sub[c]}                  \* exactly one, and activeSubState names it
             ELSE activeKids = {}
    /\ \A o \in Orthos :
          LET h == OrthoHead(o) IN
          A(h) => \A p \in 1 .. St[h].width : A(Kid(h, p))

WellFormed(m) == WellFormedObs(ActiveMask(m), SubList(m))

---------------------------------------------------------------------------
(* C03 : lifecycle callbacks balanced and nested.  `entered` is the set of *)
(*       states whose enter() ran without a matching exit().               *)

\* only states that define both enter() and exit() can be followed through the callbacks they receive
Tracked(s) == Overridden(s, "enter") /\ Overridden(s, "exit")
RECURSIVE NearestUser(_)
NearestUser(s) == IF Par(s) = 0 THEN 0 ELSE IF Tracked(Par(s)) THEN Par(s) ELSE NearestUser(Par(s))

NeedsEntered == UpdateMethods \cup ReactMethods \cup PlanMethods \cup {"query", "reenter", "exitGuard", "exit"}

BalancedStep(ent, e) ==          \* [ok, ent]
    LET s == e[1]  me == e[2] IN
    IF Len(me) > 2 /\ SubSeq(me, 1, 2) = "i_" THEN [ok |-> TRUE, ent |-> ent]        \* injected handlers follow their state
    ELSE IF ~Tracked(s) THEN [ok |-> TRUE, ent |-> ent]
    ELSE IF me = "enter" THEN
        [ok |-> s \notin ent /\ (NearestUser(s) = 0 \/ NearestUser(s) \in ent), ent |-> ent \cup {s}]
    ELSE IF me = "exit" THEN
        [ok |-> s \in ent /\ \A t \in ent : s \notin Ancestors(t), ent |-> ent \ {s}]
    ELSE IF me \in NeedsEntered THEN [ok |-> s \in ent, ent |-> ent]
    ELSE [ok |-> TRUE, ent |-> ent]

BalancedRun(entered, ev) ==      \* [ok, at (index of the first offending event), ent]
    LET RECURSIVE Go(_, _)
        Go(i, ent) ==
            IF i > Len(ev) THEN [ok |-> TRUE, at |-> 0, ent |-> ent]
            ELSE LET r == BalancedStep(ent, ev[i]) IN
                 IF r.ok THEN Go(i + 1, r.ent)
                 ELSE LET rest == Go(i + 1, r.ent) IN [ok |-> FALSE, at |-> i, ent |-> rest.ent]
    IN Go(1, entered)

---------------------------------------------------------------------------
(* C04 : guards precede any change                                         *)

GuardsBeforeLife(ev) ==
    \A i, j \in 1 .. Len(ev) :
        Base(ev[i][2]) \in GuardMethods /\ Base(ev[j][2]) \in LifeMethods => i < j

\* all rounds of the step vetoed (or without effect), nothing scheduled: nothing may have changed
FullyVetoed(m) ==
    /\ \E i \in 1 .. Len(m.rounds) : m.rounds[i][1] = "vetoed"
    /\ \A i \in 1 .. Len(m.rounds) : m.rounds[i][1] # "approved"
    /\ \A i \in 1 .. Len(m.rounds) : \A j \in 1 .. Len(m.rounds[i][2]) : m.rounds[i][2][j][3] # "schedule"


---------------------------------------------------------------------------
(* C12 / C02 : which sub-state a region picks, stated top-down.            *)
(* e = [sel, rank, util, r] : what select() / rank() / utility() return    *)
(* and the (single) generator output used for every draw of the step.      *)

HeadUtil(e, s) == IF Overridden(s, "utility") THEN e.util[s] ELSE ROne
HeadRank(e, s) == IF Overridden(s, "rank") THEN e.rank[s] ELSE 0
HeadSel(e, s)  == IF Overridden(s, "select") THEN e.sel[s]  ELSE 1

\* leftmost maximum
ArgMaxLeft(us) == CHOOSE i \in 1 .. Len(us) :
                     /\ \A j \in 1 .. Len(us) : RGe(us[i], us[j])
                     /\ \A j \in 1 .. i - 1 : ~RGe(us[j], us[i])

RSum(us) == LET RECURSIVE S(_)
                S(i) == IF i > Len(us) THEN RZero ELSE RAdd(us[i], S(i + 1))
            IN S(1)

\* the sub-state whose cumulative-utility interval contains r * sum
\* (sub-states outside the top rank carry weight 0 and can never be hit)
DrawOf(us, r) ==
    LET point == RMul(r, RSum(us))
        Cum(i) == RSum(SubSeq(us, 1, i))
    IN CHOOSE i \in 1 .. Len(us) :
          /\ us[i] # RZero
          /\ RGe(point, Cum(i - 1)) /\ ~RGe(point, Cum(i))

RECURSIVE UtilOfNode(_, _, _, _), ChooseSub(_, _, _, _)

\* utility a node reports when it "would be activated" by a request of kind k \in {"change","utilize","randomize"}
UtilOfNode(s, k, res, e) ==
    CASE St[s].kind = "S" -> HeadUtil(e, s)
      [] St[s].kind = "O" ->
            RMul(HeadUtil(e, s),
                 RDivI(RSum([i \in 1 .. St[s].width |-> UtilOfNode(Kid(s, i), k, res, e)]), St[s].width))
      [] St[s].kind = "C" ->
            RMul(HeadUtil(e, s), UtilOfNode(Kid(s, ChooseSub(s, k, res, e)), k, res, e))

ChooseSub(s, k, res, e) ==
    LET c       == St[s].compo
        resumed == IF res[c] # 0 THEN res[c] ELSE 1
        KidUtils(kk) == [i \in 1 .. St[s].width |-> UtilOfNode(Kid(s, i), kk, res, e)]
        top     == LET rs == { HeadRank(e, Kid(s, i)) : i \in 1 .. St[s].width }
                   IN CHOOSE x \in rs : \A y \in rs : x >= y
        TopUtils(kk) == [i \in 1 .. St[s].width |->
                            IF HeadRank(e, Kid(s, i)) = top THEN UtilOfNode(Kid(s, i), kk, res, e) ELSE RZero]
    IN CASE k = "restart"   -> 1
         [] k = "resume"    -> resumed
         [] k = "select"    -> HeadSel(e, s)
         [] k = "utilize"   -> ArgMaxLeft(KidUtils("utilize"))
         [] k = "randomize" -> DrawOf(TopUtils("randomize"), e.r)
         [] k = "change"    ->
              CASE St[s].strat = "Composite"   -> 1
                [] St[s].strat = "Resumable"   -> resumed
                [] St[s].strat = "Selectable"  -> HeadSel(e, s)
                [] St[s].strat = "Utilitarian" -> ArgMaxLeft(KidUtils("change"))
                [] St[s].strat = "Random"      -> DrawOf(TopUtils("change"), e.r)

---------------------------------------------------------------------------
(* C02 : the configuration a batch of requests prescribes.                 *)
(* cfg : pending configuration, one prong per composite region (0 = the    *)
(* region is not active in it)                                             *)

ComposIn(s)     == { St[t].compo : t \in { u \in Subtree(s) : St[u].kind = "C" } }
ClearSub(cfg, s) == [c \in Compos |-> IF c \in ComposIn(s) THEN 0 ELSE cfg[c]]

RECURSIVE EnterFresh(_, _, _, _, _), EnterKids(_, _, _, _, _, _, _)

\* activate the sub-tree of s from scratch, every region choosing by the request kind
EnterFresh(cfg, s, k, res, e) ==
    CASE St[s].kind = "S" -> cfg
      [] St[s].kind = "O" -> EnterKids(cfg, s, 1, 0, k, res, e)
      [] St[s].kind = "C" ->
            LET p == ChooseSub(s, k, res, e) IN
            EnterFresh([ClearSub(cfg, s) EXCEPT ![St[s].compo] = p], Kid(s, p), k, res, e)

\* all sub-states of an orthogonal region except `skip`
EnterKids(cfg, s, i, skip, k, res, e) ==
    IF i > St[s].width THEN cfg
    ELSE EnterKids(IF i = skip THEN cfg ELSE EnterFresh(cfg, Kid(s, i), k, res, e), s, i + 1, skip, k, res, e)

\* child of s on the way to d (s a strict ancestor of d)
RECURSIVE Toward(_, _)
Toward(s, d) == IF Par(d) = s THEN d ELSE Toward(s, Par(d))

\* nearest composite-style ancestor of a state (0 if none)
RECURSIVE NearestCompo(_)
NearestCompo(s) == IF Par(s) = 0 THEN 0 ELSE IF St[Par(s)].kind = "C" THEN Par(s) ELSE NearestCompo(Par(s))

\* A request re-targets the composite regions on the way to its destination d where they point elsewhere, and
\* freshly resolves - by its kind - everything below the nearest composite ancestor of d on d's side: d's own
\* sub-tree and, when d sits inside orthogonal regions, the whole orthogonal cluster around it.
RECURSIVE VisitPath(_, _, _, _, _, _, _)
VisitPath(cfg, s, wasActive, d, k, res, e) ==
    IF s = d THEN EnterFresh(cfg, s, k, res, e)                       \* d = root
    ELSE LET ch == Toward(s, d)  p == St[ch].prong IN
         IF St[s].kind = "C" THEN
              LET c == St[s].compo IN
              IF NearestCompo(d) = s
              THEN EnterFresh([ClearSub(cfg, s) EXCEPT ![c] = p], ch, k, res, e)
              ELSE IF wasActive /\ cfg[c] = p THEN VisitPath(cfg, ch, TRUE, d, k, res, e)
              ELSE VisitPath([ClearSub(cfg, s) EXCEPT ![c] = p], ch, FALSE, d, k, res, e)
         ELSE IF wasActive THEN VisitPath(cfg, ch, TRUE, d, k, res, e)
              ELSE VisitPath(EnterKids(cfg, s, 1, p, k, res, e), ch, FALSE, d, k, res, e)

\* one request <<origin, destination, kind, payload>> applied to the pending pair <<cfg, res>>
ApplyOne(cr, rq, e) ==
    LET cfg == cr[1]  res == cr[2]  d == rq[2]  k == rq[3] IN
    IF k = "schedule" THEN
         IF Par(d) # 0 /\ St[Par(d)].kind = "C" THEN <<cfg, [res EXCEPT ![St[Par(d)].compo] = St[d].prong]>> ELSE cr
    ELSE <<VisitPath(cfg, 1, TRUE, d, k, res, e), res>>

RECURSIVE ApplyBatch(_, _, _, _)
ApplyBatch(cr, batch, i, e) == IF i > Len(batch) THEN cr ELSE ApplyBatch(ApplyOne(cr, batch[i], e), batch, i + 1, e)

\* <<act', resS>> : prescribed active prongs, and the resumable marks as left by schedule requests alone
Prescribed(act, res, batch, e) == ApplyBatch(<<act, res>>, batch, 1, e)

\* what the statement fixes about resumable marks: a region that had an active sub-state and now has a
\* different one (or none) remembers the old one; a schedule into a region the step did not otherwise
\* touch sets the mark; a region no callback touched keeps its mark
ResumableRule(act, res, act2, res2, resS, touched) ==
    \A c \in Compos :
        /\ (act[c] # 0 /\ act2[c] # act[c]) => res2[c] = act[c]
        /\ (c \notin touched) => res2[c] = resS[c]

\* first activation / reset : every region by its declared strategy, nothing resumable
FreshConfig(e) == EnterFresh([c \in Compos |-> 0], 1, "change", [c \in Compos |-> 0], e)

---------------------------------------------------------------------------
(* C05 : who receives update / react / query, in which order               *)

RECURSIVE Reach(_, _, _)
\* states of the active configuration below s, head first (down = TRUE) or sub-states first
Reach(act, s, down) ==
    LET me   == IF HasUser(s) THEN <<s>> ELSE <<>>
        RECURSIVE Kids(_)
        Kids(i) == IF i > St[s].width THEN <<>> ELSE Reach(act, Kid(s, i), down) \o Kids(i + 1)
        subs == CASE St[s].kind = "S" -> <<>>
                  [] St[s].kind = "C" -> Reach(act, Kid(s, act[St[s].compo]), down)
                  [] St[s].kind = "O" -> Kids(1)
    IN IF down THEN me \o subs ELSE subs \o me

\* direction of a phase under a reaction order
GoesDown(phase, order) ==
    CASE phase \in {"preUpdate", "update"}          -> TRUE
      [] phase = "postUpdate"                      -> FALSE
      [] phase \in {"preReact", "react", "query"}  -> order = "TopDown"
      [] phase = "postReact"                       -> order = "BottomUp"

\* with injected handlers: before the own handler in pre / main phases, after it in post phases; query like react
WithInjections(seq, phase) ==
    LET RECURSIVE W(_)
        W(i) == IF i > Len(seq) THEN <<>>
                ELSE (IF seq[i] \in Cfg.inj
                      THEN (IF phase \in {"postUpdate", "postReact"}
                            THEN << <<seq[i], phase>>, <<seq[i], "i_" \o phase>> >>
                            ELSE << <<seq[i], "i_" \o phase>>, <<seq[i], phase>> >>)
                      ELSE << <<seq[i], phase>> >>) \o W(i + 1)
    IN W(1)

\* delivery list of one phase, cut after the first handler that consumes (consumers: set of <<state, method>>)
Delivery(act, phase, order, consumers) ==
    LET full == WithInjections(Reach(act, 1, GoesDown(phase, order)), phase)
        hits == { i \in 1 .. Len(full) : full[i] \in consumers }
    IN IF hits = {} THEN full ELSE SubSeq(full, 1, CHOOSE i \in hits : \A j \in hits : i <= j)

---------------------------------------------------------------------------
(* C13 : pending queries, for a single pending request evaluated by guards *)

ActiveSetOf(act, on) ==
    LET RECURSIVE A(_)
        A(s) == IF Par(s) = 0 THEN on
                ELSE A(Par(s)) /\ (St[Par(s)].kind = "O" \/ act[St[Par(s)].compo] = St[s].prong)
    IN { s \in States : A(s) }

\* states that stop / start being active when the configuration goes from act to act2,
\* plus those re-created in place: (computed from lifecycle events by the caller)
PendingExitRule(act, act2)  == ActiveSetOf(act, TRUE) \ ActiveSetOf(act2, TRUE)
PendingEnterRule(act, act2) == ActiveSetOf(act2, TRUE) \ ActiveSetOf(act, TRUE)

===========================================================================
