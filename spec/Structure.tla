---------------------------- MODULE Structure ----------------------------
(***************************************************************************)
(* Structure of an HFSM2 machine, derived from its DECLARATION TERM only.  *)
(*                                                                         *)
(* A node of the term is  <<kind, strategy, headed, subs>>                 *)
(*    kind     "S" plain state | "C" composite-style region | "O" orthog.  *)
(*    strategy "Composite" | "Resumable" | "Selectable" | "Utilitarian"    *)
(*             | "Random"   (regions of kind "C" only, "" otherwise)       *)
(*    headed   TRUE when the region has a user-defined head state, FALSE   *)
(*             for the *Peers variants (anonymous head, still numbered)    *)
(*    subs     tuple of sub-nodes (<<>> for a plain state)                 *)
(*                                                                         *)
(* Identifiers here are 1-based: state id s  <->  hfsm2 StateID s-1,       *)
(* prong p <-> hfsm2 Prong p-1, 0 is "none / invalid".                     *)
(***************************************************************************)
EXTENDS Naturals, Sequences, FiniteSets, TLC

CONSTANT Shape

NONE == 0

LOCAL Max(a, b) == IF a >= b THEN a ELSE b

\* bitContain(v) of shared/utility.hpp : number of bits needed to store 0..v-1
BitContain(v) ==
    IF v <= 1 THEN 0 ELSE IF v <= 2 THEN 1 ELSE IF v <= 4 THEN 2 ELSE IF v <= 8 THEN 3
    ELSE IF v <= 16 THEN 4 ELSE IF v <= 32 THEN 5 ELSE IF v <= 64 THEN 6 ELSE IF v <= 128 THEN 7 ELSE 8

\* contain(x, to) : ceil(x / to)
Contain(x, to) == (x + to - 1) \div to

---------------------------------------------------------------------------
(* Depth-first flattening.  acc = [tab, cc, oc, ou]                        *)

RECURSIVE Fl(_, _, _, _), FlKids(_, _, _, _)

Fl(node, parent, prong, acc) ==
    LET id   == Len(acc.tab) + 1
        kind == node[1]
        w    == Len(node[4])
        rec  == [ kind   |-> kind,
                  strat  |-> node[2],
                  headed |-> node[3],
                  parent |-> parent,
                  prong  |-> prong,
                  width  |-> w,
                  compo  |-> IF kind = "C" THEN acc.cc + 1 ELSE 0,
                  ortho  |-> IF kind = "O" THEN acc.oc + 1 ELSE 0,
                  unit   |-> IF kind = "O" THEN acc.ou     ELSE 0,    \* first bit unit (0-based)
                  region |-> IF kind = "S" THEN 0 ELSE acc.cc + acc.oc + 1 ]
        acc1 == [ tab |-> Append(acc.tab, rec),
                  cc  |-> acc.cc + (IF kind = "C" THEN 1 ELSE 0),
                  oc  |-> acc.oc + (IF kind = "O" THEN 1 ELSE 0),
                  ou  |-> acc.ou + (IF kind = "O" THEN Contain(w, 8) ELSE 0) ]
    IN  FlKids(node[4], 1, id, acc1)

FlKids(subs, i, parent, acc) ==
    IF i > Len(subs) THEN acc
    ELSE FlKids(subs, i + 1, parent, Fl(subs[i], parent, i, acc))

Flat0 == Fl(Shape, 0, 0, [tab |-> <<>>, cc |-> 0, oc |-> 0, ou |-> 0])

STATE_COUNT == Len(Flat0.tab)
States      == 1 .. STATE_COUNT
COMPO_COUNT == Flat0.cc
ORTHO_COUNT == Flat0.oc
ORTHO_UNITS == Flat0.ou
REGION_COUNT == COMPO_COUNT + ORTHO_COUNT
Compos      == 1 .. COMPO_COUNT
Orthos      == 1 .. ORTHO_COUNT
Regions     == 1 .. REGION_COUNT

LOCAL KidsOf(tab, s) ==
    [ p \in 1 .. tab[s].width |-> CHOOSE k \in 1 .. Len(tab) : tab[k].parent = s /\ tab[k].prong = p ]

RECURSIVE SizeOf(_, _)
SizeOf(tab, s) ==
    LET RECURSIVE Sum(_, _)
        Sum(ks, i) == IF i > Len(ks) THEN 0 ELSE SizeOf(tab, ks[i]) + Sum(ks, i + 1)
    IN  1 + Sum(KidsOf(tab, s), 1)

\* the per-state table
St == [ s \in States |->
          LET r == Flat0.tab[s] IN
          [ kind |-> r.kind, strat |-> r.strat, headed |-> r.headed, parent |-> r.parent,
            prong |-> r.prong, width |-> r.width, compo |-> r.compo, ortho |-> r.ortho,
            unit |-> r.unit, region |-> r.region,
            kids |-> KidsOf(Flat0.tab, s),
            size |-> SizeOf(Flat0.tab, s) ] ]

Par(s)      == St[s].parent
\* an invalid prong lands on the LAST sub-state (the binary dispatch `prong < R_PRONG` of CS_ falls right);
\* only reachable from ill-formed configurations
Kid(s, p)   == St[s].kids[IF p = 0 THEN St[s].width ELSE p]
IsRegion(s) == St[s].kind # "S"
\* a state that has user callbacks (anonymous heads of *Peers regions have none)
HasUser(s)  == St[s].headed

CompoHead(c)  == CHOOSE s \in States : St[s].compo = c
OrthoHead(o)  == CHOOSE s \in States : St[s].ortho = o
RegionHead(r) == CHOOSE s \in States : St[s].region = r
MaxWidth      == LET ws == { St[s].width : s \in States } IN CHOOSE w \in ws : \A v \in ws : v <= w

RECURSIVE Ancestors(_)
Ancestors(s) == IF Par(s) = 0 THEN {} ELSE {Par(s)} \cup Ancestors(Par(s))
Subtree(s)   == { t \in States : t = s \/ s \in Ancestors(t) }     \* = s .. s + size - 1

---------------------------------------------------------------------------
(* Published counts (forward.hpp : SI_ / CI_ / CSI_ / OI_ / OSI_ / RF_)    *)

COMPO_PRONGS == LET RECURSIVE S(_)
                    S(i) == IF i > STATE_COUNT THEN 0
                            ELSE (IF St[i].kind = "C" THEN St[i].width ELSE 0) + S(i + 1)
                IN S(1)

RECURSIVE ActiveBits(_), ResumableBits(_), ReverseDepth(_)
RECURSIVE SumAB(_, _), MaxAB(_, _), SumRB(_, _), MaxRD(_, _)
SumAB(ks, i) == IF i > Len(ks) THEN 0 ELSE ActiveBits(ks[i]) + SumAB(ks, i + 1)
MaxAB(ks, i) == IF i > Len(ks) THEN 0 ELSE Max(ActiveBits(ks[i]), MaxAB(ks, i + 1))
SumRB(ks, i) == IF i > Len(ks) THEN 0 ELSE ResumableBits(ks[i]) + SumRB(ks, i + 1)
MaxRD(ks, i) == IF i > Len(ks) THEN 0 ELSE Max(ReverseDepth(ks[i]), MaxRD(ks, i + 1))
ActiveBits(s) ==
    CASE St[s].kind = "S" -> 0
      [] St[s].kind = "C" -> MaxAB(St[s].kids, 1) + BitContain(St[s].width)
      [] St[s].kind = "O" -> SumAB(St[s].kids, 1)
ResumableBits(s) ==
    CASE St[s].kind = "S" -> 0
      [] St[s].kind = "C" -> SumRB(St[s].kids, 1) + BitContain(St[s].width) + 1
      [] St[s].kind = "O" -> SumRB(St[s].kids, 1)
ReverseDepth(s) ==
    IF St[s].kind = "S" THEN 1 ELSE MaxRD(St[s].kids, 1) + 1

ACTIVE_BITS      == ActiveBits(1)
RESUMABLE_BITS   == ResumableBits(1)
SERIAL_BITS      == 1 + ACTIVE_BITS + RESUMABLE_BITS
DEFAULT_TASK_CAPACITY == COMPO_PRONGS * 2
REVERSE_DEPTH    == ReverseDepth(1)

\* table used by the C17 generator: everything the library publishes per state / per machine
Metadata ==
    [ states  |-> STATE_COUNT, regions |-> REGION_COUNT, compos |-> COMPO_COUNT, orthos |-> ORTHO_COUNT,
      units   |-> ORTHO_UNITS, prongs  |-> COMPO_PRONGS, active_bits |-> ACTIVE_BITS,
      resumable_bits |-> RESUMABLE_BITS, serial_bits |-> SERIAL_BITS,
      task_capacity |-> DEFAULT_TASK_CAPACITY, reverse_depth |-> REVERSE_DEPTH,
      per_state |-> [ s \in States |->
          [ parent |-> St[s].parent, prong |-> St[s].prong, region |-> St[s].region,
            compo |-> St[s].compo, ortho |-> St[s].ortho, unit |-> St[s].unit,
            width |-> St[s].width, size |-> St[s].size ] ] ]
===========================================================================
