------------------------------ MODULE Machine ------------------------------
(***************************************************************************)
(* Design-level model: every reachable abstract state of one machine       *)
(* structure x every API call / callback script of a finite menu.          *)
(* TLC checks  operational layer (Hfsm.tla) |= declarative layer (Rules)   *)
(* as action properties over every transition.                             *)
(***************************************************************************)
EXTENDS Rules, TLCExt

CONSTANT Menu    \* [kinds, dests, hookStates, envs, qmax, reqops, planops]

VARIABLES st,    \* the machine record after the last call (persistent + what the call produced)
          lab,   \* label of the last / the chosen call
          ph,    \* "idle" | "chosen" : the call is picked in one step and executed (with every script) in the
                 \* next, so that TLC's per-state parallelism spreads over (state, call) pairs
          stash  \* a buffer saved from some earlier state (only in models with Menu.serial)

vars == <<st, lab, ph, stash>>

\* what carries over to the next call
View == <<st.act, st.res, st.q, st.plans, st.pex, st.succ, st.fail, ph, IF ph = "chosen" THEN lab ELSE <<>>, stash>>

Envs == Menu.envs      \* records [sel, rank, util, rng]

ReqOps == { <<"req", k, d, 0>> : k \in Menu.hookKinds, d \in Menu.hookDests } \cup { <<"req", "schedule", d, 0>> : d \in Menu.sched }
GuardOps  == {<<"cancel">>} \cup ReqOps
UpdateOps == ReqOps \cup (IF Menu.planops THEN { <<"succeed", s>> : s \in Menu.hookStates } \cup { <<"fail", s>> : s \in Menu.hookStates } ELSE {})
ReactOps  == {<<"consume">>} \cup ReqOps

HookChoices(l) ==
    LET gs == { <<s, me, 1, <<op>>>> : s \in Menu.hookStates, me \in GuardMethods, op \in GuardOps } IN
    CASE l[1] = "update" -> gs \cup { <<s, me, 1, <<op>>>> : s \in Menu.hookStates, me \in UpdateMethods, op \in UpdateOps }
      [] l[1] = "react"  -> gs \cup { <<s, me, 1, <<op>>>> : s \in Menu.hookStates, me \in ReactMethods, op \in ReactOps }
      [] l[1] = "imm"    -> gs
      [] l[1] = "query"  -> { <<s, "query", 1, <<<<"consume">>>>>> : s \in Menu.hookStates }
      [] l[1] = "enter"  -> { <<s, "entryGuard", 1, <<op>>>> : s \in Menu.hookStates, op \in ReqOps }
      [] OTHER           -> {}

Scripts(l) ==
    { [hooks |-> hs, sel |-> e.sel, rank |-> e.rank, util |-> e.util, rng |-> e.rng] :
        e \in Envs, hs \in {<<>>} \cup { <<h>> : h \in HookChoices(l) } }

Labels(m) ==
    IF ~On(m) THEN {<<"enter">>} \cup (IF Menu.serial /\ stash # <<>> THEN {<<"load">> \o stash} ELSE {})
    ELSE {<<"update">>, <<"react">>, <<"query">>, <<"reset">>}
         \cup (IF Cfg.manual THEN {<<"exit">>} ELSE {})
         \cup { <<"imm", k, d, 0>> : k \in Menu.kinds, d \in Menu.dests }
         \cup (IF Len(m.q) < Menu.qmax THEN { <<"queue", k, d, 0>> : k \in Menu.kinds, d \in Menu.dests } ELSE {})
         \cup (IF Menu.planops THEN { <<"succeed", s>> : s \in Menu.hookStates } ELSE {})
         \cup (IF Menu.serial THEN {<<"save">>} ELSE {})
         \cup (IF Menu.serial /\ stash # <<>> THEN {<<"load">> \o stash} ELSE {})

Init == /\ st = (IF Cfg.manual THEN BeginCall(Blank, EmptyScript) ELSE ApiEnter(Blank, EmptyScript))
        /\ lab = <<"new">>
        /\ ph = "idle"
        /\ stash = <<>>

Next == \/ /\ ph = "idle"
           /\ \E l \in Labels(st) : lab' = l
           /\ ph' = "chosen" /\ UNCHANGED <<st, stash>>
        \/ /\ ph = "chosen"
           \* (the self-comparison makes TLC evaluate every function constructor inside the new state: fields the VIEW
           \* hides are otherwise never normalised, and the disk-backed state queue cannot write unevaluated ones)
           /\ \E sc \in Scripts(lab) : st' = Step(st, lab, sc) /\ st' = st'
           /\ stash' = IF lab[1] = "save" THEN Encode(st) ELSE stash
           /\ ph' = "idle" /\ UNCHANGED lab

Spec == Init /\ [][Next]_vars

---------------------------------------------------------------------------
(* Properties                                                              *)

EnvOf(m) == [sel |-> m.sc.sel, rank |-> m.sc.rank, util |-> m.sc.util,
             r |-> IF Len(m.sc.rng) > 0 THEN m.sc.rng[1] ELSE RZero]

UserActive(m) == { s \in States : HasUser(s) /\ IsActive(m, s) }

\* C01
WellFormedState == WellFormed(st)
WellFormedCallbacks == \A i \in 1 .. Len(st.ev) : st.ev[i][3] # 0 - 1 => WellFormedObs(st.ev[i][3], st.ev[i][4])

\* C03 : the callbacks of the step are balanced w.r.t. the states entered before it, and afterwards
\*       exactly the active states are entered
P_Balanced == [][ ph = "chosen" => LET run == BalancedRun(UserActive(st), st'.ev)
                  IN run.ok /\ run.ent = UserActive(st') ]_vars

\* the requests that count: those of approved (or ineffective) rounds, and the schedule requests of vetoed ones
RECURSIVE EffectiveBatch(_, _)
EffectiveBatch(rounds, i) ==
    IF i > Len(rounds) THEN <<>>
    ELSE (IF rounds[i][1] = "vetoed"
          THEN SelectSeq(rounds[i][2], LAMBDA r : r[3] = "schedule")
          ELSE rounds[i][2]) \o EffectiveBatch(rounds, i + 1)

Processing(l) == l[1] \in {"update", "react", "imm"}

\* regions some callback of the step touched (any lifecycle event inside the region)
Touched(m) == { c \in Compos : \E i \in 1 .. Len(m.ev) :
                    Base(m.ev[i][2]) \in LifeMethods /\ m.ev[i][1] \in Subtree(CompoHead(c)) }

LimitHit(m) == Len(m.rounds) >= Cfg.limit

\* C02
Transitions(batch) == SelectSeq(batch, LAMBDA r : r[3] # "schedule")

\* the paths of two destinations part at a composite region (so both cannot be active)
PathOf(d) == Ancestors(d) \cup {d}
Diverge(d1, d2) ==
    \E a \in (Ancestors(d1) \cap Ancestors(d2)) :
        /\ St[a].kind = "C"
        /\ d1 # a /\ d2 # a
        /\ Toward(a, d1) # Toward(a, d2)

\* every requested destination that no later request of the batch conflicts with (by parting from its path at a
\* composite region, or by re-resolving a region above it) is active, with its ancestors
\* D30 (open finding): a request whose path runs through a composite region that IS active on that path, below a point
\* where an earlier request of the same step (same or earlier round) left the path - by targeting an ancestor or by
\* parting from it higher up - is not followed to its destination: RegistryT::requestImmediate sets no request for
\* the region that "already points the right way", and the earlier request's re-targeting above it makes the region
\* resolve afresh by its strategy
LostBelow(batch, i, act0) ==
    LET d == batch[i][2] IN
    \E j \in 1 .. i - 1 :
        LET dj   == batch[j][2]
            tops == IF dj \in Ancestors(d) THEN {dj}
                    ELSE { a \in Ancestors(d) \cap Ancestors(dj) : St[a].kind = "C" /\ Toward(a, d) # Toward(a, dj) }
        IN \E top \in tops :
              \E s \in Ancestors(d) : /\ St[s].kind = "C" /\ top \in Ancestors(s)
                                      /\ act0[St[s].compo] = St[Toward(s, d)].prong
DestinationsActive(batch, m2, act0) ==
    \A i \in 1 .. Len(batch) :
        (/\ \A j \in i + 1 .. Len(batch) : ~Diverge(batch[i][2], batch[j][2]) /\ batch[j][2] \notin Ancestors(batch[i][2])
         /\ ~("LaterRequestBelowLeftRegion" \in Dev /\ LostBelow(batch, i, act0)))
            => \A s \in PathOf(batch[i][2]) : IsActive(m2, s)

PrescProcessing ==
    (Processing(lab') /\ ~LimitHit(st')) =>
          LET batch == EffectiveBatch(st'.rounds, 1)
              trs   == Transitions(batch)
              pr    == Prescribed(st.act, st.res, batch, EnvOf(st'))
          IN /\ DestinationsActive(trs, st', st.act)
             \* regions no callback touched keep their sub-state
             /\ \A c \in Compos \ Touched(st') : st'.act[c] = st.act[c]
             \* one transition request: the whole configuration is prescribed
             /\ Len(trs) <= 1 =>
                   /\ st'.act = pr[1]
                   /\ ResumableRule(st.act, st.res, st'.act, st'.res, pr[2], Touched(st'))
PrescReset == lab'[1] = "reset" => st'.act = FreshConfig(EnvOf(st')) /\ st'.res = [c \in Compos |-> 0]
\* D20 (open finding): a request issued during the initial activation into a region that already carries requested
\* sub-states - because the activation has just resolved it, or merely evaluated it (utility / random reports set the
\* requested prongs of the branches they weigh) - is forwarded along those instead of being resolved by its kind, and
\* is not recorded if that changes nothing.  With the switch on, the exact configuration of an activation with one
\* substituted request is not prescribed (its destination must still be active).
PrescEnter ==
    (lab'[1] = "enter" /\ ~LimitHit(st')) =>
          LET trs   == Transitions(EffectiveBatch(st'.rounds, 1))
              fresh == FreshConfig(EnvOf(st'))
              intoRequested == "RequestIntoRequestedRegion" \in Dev /\ Len(trs) = 1
          IN
          /\ DestinationsActive(trs, st', [c \in Compos |-> 0])
          /\ (Len(trs) <= 1 /\ ~intoRequested) =>
                st'.act = Prescribed(fresh, [c \in Compos |-> 0], EffectiveBatch(st'.rounds, 1), EnvOf(st'))[1]
PrescIdle == lab'[1] \in {"query", "queue", "succeed", "fail"} => st'.act = st.act /\ st'.res = st.res

P_Prescribed == [][ ph = "chosen" => PrescProcessing /\ PrescReset /\ PrescEnter /\ PrescIdle ]_vars
\* the same, clause by clause (diagnostics)
P_PrescProcessing == [][ ph = "chosen" => PrescProcessing ]_vars
P_PrescReset      == [][ ph = "chosen" => PrescReset ]_vars
P_PrescEnter      == [][ ph = "chosen" => PrescEnter ]_vars
P_PrescIdle       == [][ ph = "chosen" => PrescIdle ]_vars

\* C04
IsGuardEv(e) == Base(e[2]) \in GuardMethods
GuardedRounds(m) == SelectSeq(m.rounds, LAMBDA r : r[1] # "noop")
\* the distinct pending lists the guards saw, in order
RECURSIVE Runs(_, _)
Runs(seq, i) == IF i > Len(seq) THEN <<>>
                ELSE IF i > 1 /\ seq[i] = seq[i - 1] THEN Runs(seq, i + 1) ELSE <<seq[i]>> \o Runs(seq, i + 1)
P_Guards ==
    [][ (ph = "chosen" /\ Processing(lab')) =>
          /\ GuardsBeforeLife(st'.ev)
          /\ Len(st'.rounds) <= Cfg.limit
          /\ (FullyVetoed(st') =>
                /\ st'.act = st.act /\ st'.res = st.res
                /\ \A i \in 1 .. Len(st'.ev) : Base(st'.ev[i][2]) \notin LifeMethods)
          \* lifecycle callbacks only when some round was approved
          /\ ((\E i \in 1 .. Len(st'.ev) : Base(st'.ev[i][2]) \in LifeMethods)
                => \E i \in 1 .. Len(st'.rounds) : st'.rounds[i][1] = "approved")
      ]_vars

\* C08 : every reachable state round-trips through its own buffer, which fits the published size;
\*       loading a buffer saved in any other state reproduces the saved prongs and re-saves bit-identically
RoundTrip ==
    On(st) => LET bits == UnpackBytes(Encode(st))
                  back == LoadRequested(Blank, 1, bits, 2)
              IN /\ Len(EncodeBits(st)) <= SERIAL_BITS
                 /\ back[1].req = st.act /\ back[1].res = st.res
                 /\ back[2] - 1 = Len(EncodeBits(st))
P_Load ==
    [][ (ph = "chosen" /\ lab'[1] = "load") =>
          LET saved == LoadRequested(Blank, 1, UnpackBytes(Tail(lab')), 2)[1] IN
          /\ st'.act = saved.req /\ st'.res = saved.res
          /\ Encode(st') = Tail(lab')
          /\ WellFormed(st')
      ]_vars
P_SaveUntouched == [][ (ph = "chosen" /\ lab'[1] = "save") => <<st'.act, st'.res, st'.q, st'.plans>> = <<st.act, st.res, st.q, st.plans>> ]_vars

\* C09 : what a processing step recorded as its history (previousTransitions), replayed on a machine in the step's
\*       pre-state under the same environment (no user hooks: replay calls no guards), reproduces the configuration
\*       the step ended in - whatever rounds, vetoes and substitutions the step went through
ReplayOf(m, m2) == Replay(BeginCall(m, [m2.sc EXCEPT !.hooks = <<>>]), m2.prev)
P_Replay ==
    [][ (ph = "chosen" /\ Processing(lab') /\ ~LimitHit(st') /\ Len(st'.prev) > 0) =>
          LET rp == ReplayOf(st, st') IN
          /\ rp.act = st'.act
          /\ rp.ok <=> (st'.act # st.act \/ \E i \in 1 .. Len(st'.ev) : Base(st'.ev[i][2]) \in LifeMethods)
          /\ WellFormed(rp)
          \* single round, no scheduling request: also the same resumable sub-states
          /\ (Len(st'.rounds) = 1 /\ \A j \in 1 .. Len(st'.rounds[1][2]) : st'.rounds[1][2][j][3] # "schedule") => rp.res = st'.res
      ]_vars

\* C13 : in every reachable state and for every state d, a hook-free external resume(d) leaves every composite region at
\*       or below d that it activates (head inactive before, active after) on the sub-state isResumable named before -
\*       at most one per region - else on the first (above d the path to d decides)
ResumeNamed ==
    (On(st) /\ Len(st.q) = 0) =>
        \A d \in Menu.dests :
            LET m2 == Step(st, <<"imm", "resume", d, 0>>, EmptyScript) IN
            \A c \in Compos :
                LET h == CompoHead(c)
                    named == { p \in 1 .. St[h].width : IsResumable(st, Kid(h, p)) }
                IN /\ Cardinality(named) <= 1
                   /\ (IsActive(m2, h) /\ ~IsActive(st, h) /\ h \in Subtree(d)) =>
                          m2.act[c] = (IF named = {} THEN 1 ELSE CHOOSE p \in named : TRUE)

\* C05
Consumers(m, phase) ==
    { <<h[1], h[2]>> : h \in { m.sc.hooks[i] : i \in { j \in 1 .. Len(m.sc.hooks) :
          Base(m.sc.hooks[j][2]) = phase /\ m.sc.hooks[j][3] = 1 /\
          \E o \in 1 .. Len(m.sc.hooks[j][4]) : m.sc.hooks[j][4][o][1] = "consume" } } }
Map2(seq) == [i \in 1 .. Len(seq) |-> <<seq[i][1], seq[i][2]>>]
PhaseEvents(m, phase) == Map2(SelectSeq(m.ev, LAMBDA e : Base(e[2]) = phase))
P_Delivery ==
    [][ ph = "chosen" =>
        /\ lab'[1] = "update" =>
             \A pz \in UpdateMethods : PhaseEvents(st', pz) = Delivery(st.act, pz, Cfg.order, {})
        /\ lab'[1] = "react" =>
             \A pz \in ReactMethods : PhaseEvents(st', pz) = Delivery(st.act, pz, Cfg.order, Consumers(st', pz))
        /\ lab'[1] = "query" =>
             /\ PhaseEvents(st', "query") = Delivery(st.act, "query", Cfg.order, Consumers(st', "query"))
             /\ <<st.act, st.res, st.q, st.plans, st.pex, st.succ, st.fail>>' = <<st.act, st.res, st.q, st.plans, st.pex, st.succ, st.fail>>
      ]_vars
=============================================================================
