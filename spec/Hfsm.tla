------------------------------- MODULE Hfsm -------------------------------
(***************************************************************************)
(* Operational specification of an hfsm2 machine instance.                 *)
(*                                                                         *)
(* Implementation-shaped on purpose: one operator per function of the      *)
(* library (named after it), threading a machine record `m` through the    *)
(* hierarchy exactly in the order the templates recurse.  One public API   *)
(* call = one evaluation of a top-level operator (Api* below); what user   *)
(* callbacks do and return is an INPUT, the script `m.sc`.                 *)
(*                                                                         *)
(* Identifiers are 1-based (see Structure.tla); 0 = none / invalid.        *)
(*                                                                         *)
(* A request is a tuple <<origin, destination, kind, payload>>,            *)
(*    kind \in {"change","restart","resume","select","utilize",            *)
(*              "randomize","schedule"}, payload 0 = none.                 *)
(* An event (one user callback invocation) is a tuple                      *)
(*    <<state, method, active, sub, pendE, pendX, pendC, pending, current>>*)
(* whose observation fields are empty where the method cannot observe them.*)
(***************************************************************************)
EXTENDS Structure, Integers

CONSTANTS Cfg,      \* [order, limit, taskcap, inj]  (see MC_*.tla)
          Dev       \* set of named deviations (open findings modelled as the code behaves)

Max2(a, b) == IF a >= b THEN a ELSE b

---------------------------------------------------------------------------
(* Exact rationals <<n, d>>, d > 0, normalised                             *)

RECURSIVE Gcd(_, _)
Gcd(a, b) == IF b = 0 THEN a ELSE Gcd(b, a % b)
RNorm(n, d) == IF n = 0 THEN <<0, 1>> ELSE LET g == Gcd(n, d) IN <<n \div g, d \div g>>
RMul(a, b)  == RNorm(a[1] * b[1], a[2] * b[2])
RAdd(a, b)  == RNorm(a[1] * b[2] + b[1] * a[2], a[2] * b[2])
RSub(a, b)  == RNorm(a[1] * b[2] - b[1] * a[2], a[2] * b[2])
RDivI(a, k) == RNorm(a[1], a[2] * k)
RGe(a, b)   == a[1] * b[2] >= b[1] * a[2]
RZero == <<0, 1>>
ROne  == <<1, 1>>

---------------------------------------------------------------------------
(* Task status (plan_data.hpp)                                             *)

TSNone      == [r |-> 0, ot |-> FALSE]            \* r: 0 NONE, 1 SUCCESS, 2 FAILURE
TSOr(a, b)  == [r |-> Max2(a.r, b.r), ot |-> a.ot \/ b.ot]
TSBool(a)   == a.r # 0 \/ a.ot

---------------------------------------------------------------------------
(* Method classes: which control type a callback receives                  *)

GuardMethods  == {"entryGuard", "exitGuard"}
UpdateMethods == {"preUpdate", "update", "postUpdate"}
ReactMethods  == {"preReact", "react", "postReact"}
PlanMethods   == {"planSucceeded", "planFailed"}
LifeMethods   == {"enter", "reenter", "exit"}
ReportMethods == {"select", "rank", "utility"}
FullMethods   == GuardMethods \cup UpdateMethods \cup ReactMethods \cup PlanMethods   \* FullControl and up
AllMethods    == FullMethods \cup LifeMethods \cup ReportMethods \cup {"query"}
Base(me)      == IF Len(me) > 2 /\ SubSeq(me, 1, 2) = "i_" THEN SubSeq(me, 3, Len(me)) ELSE me

---------------------------------------------------------------------------
(* The machine record                                                      *)

EmptyScript == [hooks |-> <<>>, sel |-> [s \in States |-> 1], rank |-> [s \in States |-> 0],
                util |-> [s \in States |-> ROne], rng |-> <<>>]

\* (written as the empty tuple for machines without orthogonal regions: TLC's disk queue cannot write an unevaluated
\* function constructor over an empty domain when a VIEW keeps it from being normalised)
NoOrthoRequests == IF Orthos = {} THEN <<>> ELSE [o \in Orthos |-> {}]

Blank ==
    [ \* ---- persistent -------------------------------------------------
      act   |-> [c \in Compos |-> 0],          \* compoActive
      res   |-> [c \in Compos |-> 0],          \* compoResumable
      q     |-> <<>>,                          \* core.requests
      prev  |-> <<>>,                          \* previousTransitions
      tt    |-> [s \in States |-> 1],          \* transitionTargets (zero-initialised by the constructor = "index 0")
      plans |-> [r \in Regions |-> <<>>],      \* task lists per region
      pex   |-> {},                            \* planExists
      succ  |-> {}, fail |-> {},               \* tasksSuccesses / tasksFailures
      activity |-> [s \in States |-> 0],       \* activityHistory
      sa    |-> 0,                             \* structure()[..].isActive as a mask
      \* ---- transient registry ------------------------------------------
      req   |-> [c \in Compos |-> 0],          \* compoRequested
      rem   |-> {},                            \* compoRemains
      oreq  |-> NoOrthoRequests,         \* orthoRequested
      hst   |-> [r \in Regions |-> TSNone],    \* headStatuses
      sst   |-> [r \in Regions |-> TSNone],    \* subStatuses
      \* ---- per-call / control objects ----------------------------------
      ev    |-> <<>>,                          \* callbacks invoked, in order
      org   |-> 0,                             \* control._originId
      rid   |-> 1, rs |-> 1, rz |-> STATE_COUNT,   \* _regionId, _regionStateId, _regionSize
      ts    |-> TSNone,                        \* control._taskStatus
      cancelled |-> FALSE, consumed |-> FALSE,
      ok    |-> TRUE,                          \* boolean result of the last guard operator
      rv    |-> TSNone,                        \* non-boolean result of the last operator
      pend  |-> <<>>, cur |-> <<>>,            \* pendingTransitions, currentTransitions
      draws |-> 0,                             \* generator outputs consumed in this call
      lg    |-> FALSE,                         \* persistent: a logger is attached (core.logger # nullptr)
      log   |-> <<>>,                          \* what the attached logger was told in this call, in order
      pexec |-> FALSE,                         \* the plan executor went through a plan's tasks in this call
      plog  |-> <<>>,                          \* plan API calls of this call: <<"a", 0|1>> append (result), <<"c", n>> clear (of n tasks), <<"r", 0|1>> remove, <<"w", tasks>> sweep
      rounds |-> <<>>,                         \* per round: <<"approved"|"vetoed"|"noop", requests>>
      over  |-> 0,                             \* requests rejected because the queue was full
      oa    |-> 0, osub |-> <<>>,              \* what isActive / activeSubState answer during this call's callbacks
      ope   |-> 0, opx |-> 0, opc |-> 0,       \* what isPending* answer during the current guard round
      oreg  |-> <<>>,                          \* the requested prongs / remain marks / orthogonal request bits the guards of this round run under
      dev   |-> Dev,                           \* deviation switches in force (open findings modelled as the code behaves)
      notes |-> {},                            \* deviation switches that actually made a difference in this call
      sc    |-> EmptyScript ]

QueueCapacity == COMPO_COUNT
HistCapacity  == COMPO_COUNT * Cfg.limit

On(m) == m.act[1] # 0                  \* R_::isActive() : compoActive[ROOT_ID] != INVALID

NewControl(m) == [m EXCEPT !.org = 0, !.rid = 1, !.rs = 1, !.rz = STATE_COUNT, !.ts = TSNone,
                           !.cancelled = FALSE, !.consumed = FALSE]

---------------------------------------------------------------------------
(* RegistryT queries (registry_1.inl; registry_2.inl must agree)           *)

RECURSIVE IsActive(_, _), IsResumable(_, _), IsPendingEnter(_, _), IsPendingExit(_, _), IsPendingChange(_, _)

IsActive(m, s) ==
    IF Par(s) = 0 THEN On(m)
    ELSE LET p == Par(s) IN
         IF St[p].kind = "C" THEN m.act[St[p].compo] = St[s].prong ELSE IsActive(m, p)

IsResumable(m, s) ==
    IF Par(s) = 0 THEN FALSE
    ELSE LET p == Par(s) IN
         IF St[p].kind = "C" THEN m.res[St[p].compo] = St[s].prong ELSE IsResumable(m, p)

IsPendingEnter(m, s) ==
    IF Par(s) = 0 THEN FALSE
    ELSE LET p == Par(s) IN
         IF St[p].kind = "C"
         THEN St[s].prong # m.act[St[p].compo] /\ St[s].prong = m.req[St[p].compo]
         ELSE IsPendingEnter(m, p)

IsPendingChange(m, s) ==
    IF Par(s) = 0 THEN FALSE
    ELSE LET p == Par(s) IN
         IF St[p].kind = "C"
         THEN m.req[St[p].compo] # m.act[St[p].compo]
         ELSE IsPendingChange(m, p)

IsPendingExit(m, s) ==
    IF Par(s) = 0 THEN FALSE
    ELSE LET p == Par(s) IN
         IF St[p].kind = "C"
         THEN St[s].prong = m.act[St[p].compo] /\ St[s].prong # m.req[St[p].compo]
         ELSE IsPendingExit(m, p)

\* activeSubState(stateId): looks at the parent link of stateId + 1
ActiveSubState(m, s) ==
    IF s + 1 > STATE_COUNT THEN 0
    ELSE LET p == Par(s + 1) IN
         IF p # 0 /\ St[p].kind = "C" THEN m.act[St[p].compo] ELSE 0

\* bit mask over state ids: bit s-1 set iff P(s)   (how the executor logs sets of states)
MaskOf(P(_)) == LET RECURSIVE S(_)
                    S(s) == IF s > STATE_COUNT THEN 0 ELSE (IF P(s) THEN 2 ^ (s - 1) ELSE 0) + S(s + 1)
                IN S(1)
InMask(mask, s) == (mask \div (2 ^ (s - 1))) % 2 = 1
SetOfMask(mask) == { s \in States : InMask(mask, s) }
MaskOfSet(set)  == LET P(s) == s \in set IN MaskOf(P)

ActiveMask(m)  == LET P(s) == IsActive(m, s)        IN MaskOf(P)
ResumeMask(m)  == LET P(s) == IsResumable(m, s)     IN MaskOf(P)
PendEMask(m)   == LET P(s) == IsPendingEnter(m, s)  IN MaskOf(P)
PendXMask(m)   == LET P(s) == IsPendingExit(m, s)   IN MaskOf(P)
PendCMask(m)   == LET P(s) == IsPendingChange(m, s) IN MaskOf(P)
SubList(m)     == [c \in Compos |-> ActiveSubState(m, CompoHead(c))]

---------------------------------------------------------------------------
(* Callbacks                                                               *)

\* (built as explicit tuples: values that a VIEW hides are never normalised by TLC, and its disk queue cannot write
\* an unevaluated function constructor)
RECURSIVE StatusCodes(_, _)
StatusCodes(f, r) == IF r > REGION_COUNT THEN <<>>
                     ELSE <<IF "PLANS" \in Cfg.features THEN f[r].r + (IF f[r].ot THEN 3 ELSE 0) ELSE 0>> \o StatusCodes(f, r + 1)

ObservesConfig(me) == Base(me) \in UpdateMethods \cup ReactMethods \cup GuardMethods \cup PlanMethods \cup {"query"}

Observe(m, s, me) ==
    LET b == Base(me) IN
    \* Every callback that can observe the configuration runs before the call changes any active prong, and
    \* the requested prongs are fixed while the guards of one round run; both observations are therefore
    \* computed once (BeginCall / SnapshotPending) instead of once per callback.
    <<  IF ObservesConfig(me) THEN m.oa   ELSE 0 - 1,
        IF ObservesConfig(me) THEN m.osub ELSE <<>>,
        IF b \in GuardMethods THEN m.ope  ELSE 0 - 1,
        IF b \in GuardMethods THEN m.opx  ELSE 0 - 1,
        IF b \in GuardMethods THEN m.opc  ELSE 0 - 1,
        IF b \in GuardMethods THEN m.pend       ELSE <<>>,
        IF b \in GuardMethods \cup LifeMethods THEN m.cur ELSE <<>>,
        \* the regions' head / sub-state statuses accumulated so far in this call (result + 3 * outerTransition)
        IF b \in UpdateMethods \cup ReactMethods \cup PlanMethods
        THEN << StatusCodes(m.hst, 1), StatusCodes(m.sst, 1) >>
        ELSE <<>>,
        \* what the round under evaluation has requested (the registry the guards are asked about)
        IF b \in GuardMethods THEN m.oreg ELSE <<>>  >>

Event(m, s, me) == <<s, me>> \o Observe(m, s, me)

Occurrences(ev, s, me) == Cardinality({ i \in 1 .. Len(ev) : ev[i][1] = s /\ ev[i][2] = me })

\* ops scripted for the n-th invocation of (s, me) in this call
HookOps(sc, s, me, n) ==
    LET hs == { i \in 1 .. Len(sc.hooks) : sc.hooks[i][1] = s /\ sc.hooks[i][2] = me /\ sc.hooks[i][3] = n }
    IN  IF hs = {} THEN <<>> ELSE sc.hooks[CHOOSE i \in hs : \A j \in hs : i <= j][4]

TotalTasks(m) == LET RECURSIVE S(_)
                     S(r) == IF r > REGION_COUNT THEN 0 ELSE Len(m.plans[r]) + S(r + 1)
                 IN S(1)

RegionStates(r) == Subtree(RegionHead(r))

\* ---- the logger (features/logger_interface.hpp; macros_on.hpp HFSM2_LOG_*) ----------------
Has(f) == f \in Cfg.features
HasLog == Has("LOG_INTERFACE") \/ Has("VERBOSE_DEBUG_LOG")       \* verbose logging switches the interface on
Log(m, rec) == IF m.lg /\ HasLog THEN [m EXCEPT !.log = Append(@, rec)] ELSE m
\* does state s define method me itself?  (anonymous heads define nothing; Cfg.ovr lists what a user state defines;
\* states in Cfg.defplan leave planSucceeded / planFailed to A_<>'s default)
Overridden(s, me) == /\ HasUser(s)
                     /\ Base(me) \in Cfg.ovr[s]
                     /\ ~(Base(me) \in PlanMethods /\ s \in Cfg.defplan)
\* HFSM2_LOG_STATE_METHOD : verbose logging reports every wrapper that runs, interface logging only methods the
\* state overrides (S_::log overloads on the member pointer's class)
\* D29 (open finding): deepPreReact / deepReact / deepPostReact / deepQuery cast the member pointer to `(Head::*)` before
\* handing it to S_::log, which hides that the method was inherited from the empty base: under interface logging these
\* four are reported for every user state they pass through, defined or not
LogMethod(m, s, me) ==
    IF Has("VERBOSE_DEBUG_LOG") \/ Overridden(s, me) THEN Log(m, <<"m", s, me>>)
    ELSE IF /\ HasUser(s) /\ Base(me) \in ReactMethods \cup {"query"} /\ "InterfaceLogReactFamily" \in m.dev /\ m.lg /\ HasLog
         THEN [Log(m, <<"m", s, me>>) EXCEPT !.notes = @ \cup {"D29"}]
    ELSE m

\* FullControlBaseT::changeTo & co  (control_3.inl) : the transition is reported (and an outer transition noted) even
\* when the full queue drops the request
CtlRequest(m, k, d, p) ==
    LET ot == IF k = "schedule" THEN m.ts.ot ELSE m.ts.ot \/ (d < m.rs \/ m.rs + m.rz <= d)
        m1 == IF Len(m.q) >= QueueCapacity THEN [m EXCEPT !.over = @ + 1, !.ts.ot = ot]
              ELSE [m EXCEPT !.q = Append(@, <<m.org, d, k, p>>), !.ts.ot = ot]
    IN Log(m1, <<"t", m.org, k, d>>)

MaskBit(mask, i) == i <= 30 /\ (mask \div (2 ^ (i - 1))) % 2 = 1      \* (masks stay below 2^30; TLC integers are 32-bit)
SelectSeqIdx(seq, Keep(_)) ==
    LET RECURSIVE F(_)
        F(i) == IF i > Len(seq) THEN <<>> ELSE (IF Keep(i) THEN <<seq[i]>> ELSE <<>>) \o F(i + 1)
    IN F(1)
RemoveAt(seq, i) == SubSeq(seq, 1, i - 1) \o SubSeq(seq, i + 1, Len(seq))

\* PlanT::clearStatuses
PlanClearStatuses(m, r) ==
    [m EXCEPT !.succ = @ \ RegionStates(r), !.fail = @ \ RegionStates(r),
              !.hst[r] = TSNone, !.sst[r] = TSNone]

ApplyOp(m, me, op) ==
    LET b == Base(me)  t == op[1] IN
    CASE t = "req" /\ b \in FullMethods        -> CtlRequest(m, op[2], op[3], op[4])
      [] t = "cancel" /\ b \in GuardMethods    -> Log([m EXCEPT !.cancelled = TRUE], <<"cp", m.org>>)
      [] t = "succeed" /\ b \in FullMethods    ->
            IF op[2] > 1 THEN Log([m EXCEPT !.ts.r = 1, !.succ = @ \cup {op[2]}], <<"ts", m.rs, op[2], "succeeded">>) ELSE m
      [] t = "fail" /\ b \in FullMethods       ->
            IF op[2] > 1 THEN Log([m EXCEPT !.ts.r = 2, !.fail = @ \cup {op[2]}], <<"ts", m.rs, op[2], "failed">>) ELSE m
      [] t = "consume" /\ b \in ReactMethods \cup {"query"} -> [m EXCEPT !.consumed = TRUE]
      [] t = "plan_append" /\ b \in FullMethods \cup LifeMethods ->
            \* <<"plan_append", region, origin, dest, kind, payload>>
            \* PlanT::append : refused (false, nothing changes) once TASK_CAPACITY tasks are stored machine-wide
            IF TotalTasks(m) < Cfg.taskcap
            THEN [m EXCEPT !.pex = @ \cup {op[2]}, !.plans[op[2]] = Append(@, <<op[3], op[4], op[5], op[6]>>),
                           !.plog = Append(@, <<"a", 1>>)]
            ELSE [m EXCEPT !.plog = Append(@, <<"a", 0>>)]
      [] t = "plan_clear" /\ b \in FullMethods \cup LifeMethods ->
            PlanClearStatuses([m EXCEPT !.plans[op[2]] = <<>>, !.plog = Append(@, <<"c", Len(m.plans[op[2]])>>)], op[2])
      [] t = "plan_remove" /\ b \in FullMethods \cup LifeMethods ->
            IF op[3] <= Len(m.plans[op[2]]) THEN [m EXCEPT !.plans[op[2]] = RemoveAt(@, op[3]), !.plog = Append(@, <<"r", 1>>)]
            ELSE [m EXCEPT !.plog = Append(@, <<"r", 0>>)]
      [] t = "plan_sweep" /\ b \in FullMethods \cup LifeMethods ->
            \* <<"plan_sweep", region, mask>> : iterate the whole plan, Iterator::remove() at the positions in mask;
            \* every task is visited exactly once, in order, and only the addressed ones disappear
            LET pl == m.plans[op[2]] IN
            [m EXCEPT !.plans[op[2]] = SelectSeqIdx(pl, LAMBDA i : ~MaskBit(op[3], i)),
                      !.plog = Append(@, <<"w", pl>>)]
      [] OTHER -> m

RECURSIVE ApplyOps(_, _, _, _)
ApplyOps(m, me, ops, i) == IF i > Len(ops) THEN m ELSE ApplyOps(ApplyOp(m, me, ops[i]), me, ops, i + 1)

\* one user-defined method: ScopedOrigin, the event, the scripted ops
Fire1(m, s, me) ==
    LET n  == Occurrences(m.ev, s, me) + 1
        m1 == [m EXCEPT !.ev = Append(@, Event(m, s, me)), !.org = s]
        m2 == ApplyOps(m1, me, HookOps(m.sc, s, me, n), 1)
    IN  [m2 EXCEPT !.org = m.org]

HasInj(s) == s \in Cfg.inj
\* S_::deepX : injected (StateT<...>) handlers and the state's own, in the order of state_1.inl
InjFirst(me) == me \in {"entryGuard", "enter", "reenter", "preUpdate", "update", "preReact", "react", "exitGuard"}
Fire(m, s, me) ==
    LET m0 == LogMethod(m, s, me) IN
    IF ~HasUser(s) THEN m0
    ELSE IF ~HasInj(s) THEN (IF Overridden(s, me) THEN Fire1(m0, s, me) ELSE m0)
    ELSE IF InjFirst(me) THEN Fire1(Fire1(m0, s, "i_" \o me), s, me)
    ELSE Fire1(Fire1(m0, s, me), s, "i_" \o me)

\* Head::select / rank / utility (const Control&): an event, no ops
FireReport(m, s, me) == LET m0 == LogMethod(m, s, me) IN
                        IF ~Overridden(s, me) THEN m0 ELSE [m0 EXCEPT !.ev = Append(@, Event(m, s, me))]
\* anonymous heads (S_<.., EmptyT<>> in state_2.inl) and states that do not define the method answer like A_<>:
\* select 0 (first), rank 0, utility 1
SelectOf(m, s) == IF Overridden(s, "select")  THEN m.sc.sel[s]  ELSE 1
RankOf(m, s)   == IF Overridden(s, "rank")    THEN m.sc.rank[s] ELSE 0
UtilOf(m, s)   == IF Overridden(s, "utility") THEN m.sc.util[s] ELSE ROne

\* PlanControlT::Region (ScopedRegion) : enter / leave
ScopeIn(m, s)        == [m EXCEPT !.rid = St[s].region, !.rs = s, !.rz = St[s].size]
ScopeOut(m1, m)      == [m1 EXCEPT !.rid = m.rid, !.rs = m.rs, !.rz = m.rz, !.ts = TSNone]
\* ControlT::Region / ConstControlT::Region (only the region id)
ScopeOutC(m1, m)     == [m1 EXCEPT !.rid = m.rid]

---------------------------------------------------------------------------
(* Transition history (control_1.inl)                                      *)

\* (a transition replayed beyond the capacity of the history is applied but not recorded: nothing to point at)
Pin(m, s, i) == IF i # 0 /\ i <= HistCapacity /\ ~IsActive(m, s) THEN [m EXCEPT !.tt[s] = i] ELSE m

---------------------------------------------------------------------------
(* RegistryT::requestImmediate : walk from the destination towards the root *)

RECURSIVE Up(_, _, _)
Up(m, s, ph) ==                    \* ph = 1 : below the first composite ancestor; 2 : above it
    IF Par(s) = 0 THEN m ELSE
    LET p == Par(s)  pr == St[s].prong IN
    IF St[p].kind = "O" THEN Up([m EXCEPT !.oreq[St[p].ortho] = @ \cup {pr}], p, ph)
    ELSE LET c == St[p].compo IN
         IF ph = 1 THEN Up([m EXCEPT !.req[c] = pr], p, 2)
         ELSE LET m1 == [m EXCEPT !.rem = @ \cup {c}] IN
              IF (m.req[c] # pr /\ m.req[c] # 0) \/ m.act[c] # pr
              THEN Up([m1 EXCEPT !.req[c] = pr], p, 2)
              ELSE Up(m1, p, 2)

RequestImmediate(m, d) == Up(m, d, 1)

RequestScheduled(m, s) ==
    LET p == Par(s) IN
    IF p # 0 /\ St[p].kind = "C" THEN [m EXCEPT !.res[St[p].compo] = St[s].prong] ELSE m

---------------------------------------------------------------------------
(* Downward resolution (composite*.inl, orthogonal*.inl, state_1.inl)      *)
(* rq = [k |-> kind, i |-> index of the request in the queue]              *)

RECURSIVE DeepForwardActive(_, _, _), DeepForwardRequest(_, _, _), DeepRequest(_, _, _),
          DeepRequestChange(_, _, _), DeepRequestRestart(_, _, _), DeepRequestResume(_, _, _),
          DeepRequestSelect(_, _, _), DeepRequestUtilize(_, _, _), DeepRequestRandomize(_, _, _),
          DeepReportChange(_, _), DeepReportUtilize(_, _), DeepReportRandomize(_, _),
          WideAll(_, _, _, _, _), WideForwardActiveO(_, _, _, _)

\* apply Op in {"fr","change","restart","resume","select","utilize","randomize"} to every sub-state of an orthogonal region
WideAll(m, s, rq, op, i) ==
    IF i > St[s].width THEN m
    ELSE LET k == Kid(s, i)
             m1 == CASE op = "fr"        -> DeepForwardRequest(m, k, rq)
                     [] op = "change"    -> DeepRequestChange(m, k, rq)
                     [] op = "restart"   -> DeepRequestRestart(m, k, rq)
                     [] op = "resume"    -> DeepRequestResume(m, k, rq)
                     [] op = "select"    -> DeepRequestSelect(m, k, rq)
                     [] op = "utilize"   -> DeepRequestUtilize(m, k, rq)
                     [] op = "randomize" -> DeepRequestRandomize(m, k, rq)
         IN WideAll(m1, s, rq, op, i + 1)

WideForwardActiveO(m, s, rq, i) ==
    IF i > St[s].width THEN m
    ELSE WideForwardActiveO(IF i \in m.oreq[St[s].ortho] THEN DeepForwardActive(m, Kid(s, i), rq) ELSE m,
                            s, rq, i + 1)

DeepForwardActive(m, s, rq) ==
    CASE St[s].kind = "S" -> m
      [] St[s].kind = "C" ->
            LET c == St[s].compo IN
            IF m.req[c] = 0 THEN DeepForwardActive(m, Kid(s, m.act[c]), rq)
            ELSE DeepForwardRequest(m, Kid(s, m.req[c]), rq)
      [] St[s].kind = "O" -> WideForwardActiveO(m, s, rq, 1)

DeepForwardRequest(m, s, rq) ==
    LET m1 == Pin(m, s, rq.i) IN
    CASE St[s].kind = "S" -> m1
      [] St[s].kind = "C" ->
            LET c == St[s].compo IN
            IF m1.req[c] # 0 THEN DeepForwardRequest(m1, Kid(s, m1.req[c]), rq)
            ELSE DeepRequest(m1, s, rq)
      [] St[s].kind = "O" ->
            IF m1.oreq[St[s].ortho] # {} THEN WideAll(m1, s, rq, "fr", 1)
            ELSE DeepRequest(m1, s, rq)

DeepRequest(m, s, rq) ==
    CASE rq.k = "change"    -> DeepRequestChange(m, s, rq)
      [] rq.k = "restart"   -> DeepRequestRestart(m, s, rq)
      [] rq.k = "resume"    -> DeepRequestResume(m, s, rq)
      [] rq.k = "select"    -> DeepRequestSelect(m, s, rq)
      [] rq.k = "utilize"   -> DeepRequestUtilize(m, s, rq)
      [] rq.k = "randomize" -> DeepRequestRandomize(m, s, rq)

\* ---- utility reports: result in m.rv = [u |-> utility, p |-> prong] -----------------------

\* leftmost maximum of per-sub-state reports (CS_::wideReportUtilize / wideReportChangeUtilitarian)
RECURSIVE WideBest(_, _, _, _, _)
WideBest(m, s, i, best, kind) ==            \* best = [u, p] so far (p = 0: none yet)
    IF i > St[s].width THEN [m EXCEPT !.rv = best]
    ELSE LET m1 == IF kind = "utilize" THEN DeepReportUtilize(m, Kid(s, i)) ELSE DeepReportChange(m, Kid(s, i))
             r  == m1.rv
             b1 == IF best.p = 0 \/ ~RGe(best.u, r.u) THEN r ELSE best
         IN WideBest(m1, s, i + 1, b1, kind)

\* CS_::wideReportRank : ranks of all sub-states, m.rv = [ranks |-> seq, top |-> max]
RECURSIVE WideRanks(_, _, _, _)
WideRanks(m, s, i, acc) ==
    IF i > St[s].width
    THEN [m EXCEPT !.rv = [ranks |-> acc,
                           top |-> LET RECURSIVE Mx(_)
                                       Mx(j) == IF j > Len(acc) THEN 0 - 1000 ELSE Max2(acc[j], Mx(j + 1))
                                   IN Mx(1)]]
    ELSE LET k == Kid(s, i)
             h == IF St[k].kind = "S" THEN k ELSE k       \* C_/O_::deepReportRank = head's rank
             m1 == FireReport(m, h, "rank")
         IN WideRanks(m1, s, i + 1, Append(acc, RankOf(m, h)))

\* CS_::wideReportRandomize / wideReportChangeRandom : utilities of top-rank sub-states (others 0)
RECURSIVE WideUtils(_, _, _, _, _, _, _)
WideUtils(m, s, i, ranks, top, acc, kind) ==
    IF i > St[s].width
    THEN [m EXCEPT !.rv = [utils |-> acc,
                           sum |-> LET RECURSIVE Sm(_)
                                       Sm(j) == IF j > Len(acc) THEN RZero ELSE RAdd(acc[j], Sm(j + 1))
                                   IN Sm(1)]]
    ELSE IF ranks[i] # top THEN WideUtils(m, s, i + 1, ranks, top, Append(acc, RZero), kind)
    ELSE LET m1 == IF kind = "randomize" THEN DeepReportRandomize(m, Kid(s, i)) ELSE DeepReportChange(m, Kid(s, i))
             u  == IF kind = "randomize" THEN m1.rv ELSE m1.rv.u
         IN WideUtils(m1, s, i + 1, ranks, top, Append(acc, u), kind)

\* C_::resolveRandom
NextRandom(m) == IF m.draws + 1 <= Len(m.sc.rng) THEN m.sc.rng[m.draws + 1] ELSE RZero
ResolveRandom(m, s, utils, sum, ranks, top) ==
    LET random == NextRandom(m)
        RECURSIVE Walk(_, _, _)
        Walk(i, cursor, last) ==             \* <<prong, found>>
            IF i > Len(utils) THEN <<last, FALSE>>   \* fell off the end: last eligible prong (see D3), nothing reported
            ELSE IF ranks[i] # top THEN Walk(i + 1, cursor, last)
            ELSE IF RGe(cursor, utils[i]) THEN Walk(i + 1, RSub(cursor, utils[i]), i)
            ELSE <<i, TRUE>>
        w  == Walk(1, RMul(random, sum), 0)
        m1 == [m EXCEPT !.draws = @ + 1, !.rv = w[1]]
    IN  IF w[2] THEN Log(m1, <<"rn", s, w[1], random>>) ELSE m1

\* sum of sub-state reports of an orthogonal region (OS_::wideReportChange & co)
RECURSIVE WideSumO(_, _, _, _, _)
WideSumO(m, s, i, acc, kind) ==
    IF i > St[s].width THEN [m EXCEPT !.rv = acc]
    ELSE LET m1 == CASE kind = "change"    -> DeepReportChange(m, Kid(s, i))
                     [] kind = "utilize"   -> DeepReportUtilize(m, Kid(s, i))
                     [] kind = "randomize" -> DeepReportRandomize(m, Kid(s, i))
             u  == IF kind = "randomize" THEN m1.rv ELSE m1.rv.u
         IN WideSumO(m1, s, i + 1, RAdd(acc, u), kind)

HeadUP(m, s) == [m EXCEPT !.rv = [u |-> UtilOf(m, s), p |-> St[s].prong]]

\* HeadState::deepReportChange / deepReportUtilize : a user head reports through wrapUtility (logged), the anonymous
\* head's specialisation answers without going through a wrapper (nothing logged even in verbose mode)
HeadReport(m, s) == IF HasUser(s) THEN FireReport(m, s, "utility") ELSE m

DeepReportChange(m, s) ==
    CASE St[s].kind = "S" -> HeadUP(FireReport(m, s, "utility"), s)
      [] St[s].kind = "O" ->
            LET mh == HeadReport(m, s)
                ms == WideSumO(mh, s, 1, RZero, "change")
                ml == Log(ms, <<"ut", s, 0, RDivI(ms.rv, St[s].width)>>)
            IN [ml EXCEPT !.rv = [u |-> RMul(UtilOf(m, s), RDivI(ms.rv, St[s].width)), p |-> St[s].prong]]
      [] St[s].kind = "C" ->
            LET c == St[s].compo  sg == St[s].strat IN
            CASE sg = "Composite" ->
                    LET m1 == [m EXCEPT !.req[c] = 1]
                        mh == HeadReport(m1, s)
                        ms == DeepReportChange(mh, Kid(s, 1))
                    IN [ms EXCEPT !.rv = [u |-> RMul(UtilOf(m, s), ms.rv.u), p |-> St[s].prong]]
              [] sg = "Resumable" ->
                    LET r  == IF m.res[c] # 0 THEN m.res[c] ELSE 1
                        m1 == [m EXCEPT !.req[c] = r]
                        mh == HeadReport(m1, s)
                        ms == DeepReportChange(mh, Kid(s, r))
                    IN [ms EXCEPT !.rv = [u |-> RMul(UtilOf(m, s), ms.rv.u), p |-> St[s].prong]]
              [] sg = "Selectable" ->
                    \* the region would activate what its select() names
                    LET r  == SelectOf(m, s)
                        m1 == Log(FireReport([m EXCEPT !.req[c] = r], s, "select"), <<"sel", s, r>>)
                        mh == HeadReport(m1, s)
                        ms == DeepReportChange(mh, Kid(s, r))
                    IN [ms EXCEPT !.rv = [u |-> RMul(UtilOf(m, s), ms.rv.u), p |-> St[s].prong]]
              [] sg = "Utilitarian" ->
                    LET mh == HeadReport(m, s)
                        ms == WideBest(mh, s, 1, [u |-> RZero, p |-> 0], "change")
                        b  == ms.rv
                    IN [Log(ms, <<"ut", s, b.p, b.u>>) EXCEPT !.req[c] = b.p, !.rv = [u |-> RMul(UtilOf(m, s), b.u), p |-> St[s].prong]]
              [] sg = "Random" ->
                    LET mh == HeadReport(m, s)
                        mr == WideRanks(mh, s, 1, <<>>)
                        mu == WideUtils(mr, s, 1, mr.rv.ranks, mr.rv.top, <<>>, "change")
                        mx == ResolveRandom(mu, s, mu.rv.utils, mu.rv.sum, mr.rv.ranks, mr.rv.top)
                    IN [mx EXCEPT !.req[c] = mx.rv,
                                  !.rv = [u |-> RMul(UtilOf(m, s), mu.rv.utils[mx.rv]), p |-> St[s].prong]]

DeepReportUtilize(m, s) ==
    CASE St[s].kind = "S" -> HeadUP(FireReport(m, s, "utility"), s)
      [] St[s].kind = "O" ->
            LET mh == HeadReport(m, s)
                ms == WideSumO(mh, s, 1, RZero, "utilize")
                ml == Log(ms, <<"ut", s, 0, RDivI(ms.rv, St[s].width)>>)
            IN [ml EXCEPT !.rv = [u |-> RMul(UtilOf(m, s), RDivI(ms.rv, St[s].width)), p |-> St[s].prong]]
      [] St[s].kind = "C" ->
            LET c  == St[s].compo
                mh == HeadReport(m, s)
                ms == WideBest(mh, s, 1, [u |-> RZero, p |-> 0], "utilize")
                b  == ms.rv
            IN [Log(ms, <<"ut", s, b.p, b.u>>) EXCEPT !.req[c] = b.p, !.rv = [u |-> RMul(UtilOf(m, s), b.u), p |-> St[s].prong]]

DeepReportRandomize(m, s) ==            \* m.rv = utility
    CASE St[s].kind = "S" -> [FireReport(m, s, "utility") EXCEPT !.rv = UtilOf(m, s)]
      [] St[s].kind = "O" ->
            LET mh == FireReport(m, s, "utility")
                ms == WideSumO(mh, s, 1, RZero, "randomize")
                ml == Log(ms, <<"rn", s, 0, RDivI(ms.rv, St[s].width)>>)
            IN [ml EXCEPT !.rv = RMul(UtilOf(m, s), RDivI(ms.rv, St[s].width))]
      [] St[s].kind = "C" ->
            LET c  == St[s].compo
                mh == FireReport(m, s, "utility")
                mr == WideRanks(mh, s, 1, <<>>)
                mu == WideUtils(mr, s, 1, mr.rv.ranks, mr.rv.top, <<>>, "randomize")
                mx == ResolveRandom(mu, s, mu.rv.utils, mu.rv.sum, mr.rv.ranks, mr.rv.top)
            IN [mx EXCEPT !.req[c] = mx.rv, !.rv = RMul(UtilOf(m, s), mu.rv.utils[mx.rv])]

\* ---- requests ---------------------------------------------------------------------------

DeepRequestChange(m, s, rq) ==
    LET m0 == Pin(m, s, rq.i) IN
    CASE St[s].kind = "S" -> m0
      [] St[s].kind = "O" -> WideAll(m0, s, rq, "change", 1)
      [] St[s].kind = "C" ->
            LET c == St[s].compo  sg == St[s].strat IN
            CASE sg = "Composite" -> DeepRequestChange([m0 EXCEPT !.req[c] = 1], Kid(s, 1), rq)
              [] sg = "Resumable" ->
                    LET r == IF m0.res[c] # 0 THEN m0.res[c] ELSE 1 IN
                    DeepRequestChange([m0 EXCEPT !.req[c] = r], Kid(s, r), rq)
              [] sg = "Selectable" ->
                    LET r  == SelectOf(m0, s)
                        m1 == Log(FireReport(m0, s, "select"), <<"sel", s, r>>)
                    IN DeepRequestChange([m1 EXCEPT !.req[c] = r], Kid(s, r), rq)
              [] sg = "Utilitarian" ->
                    LET ms == WideBest(m0, s, 1, [u |-> RZero, p |-> 0], "change")
                    IN [Log(ms, <<"ut", s, ms.rv.p, ms.rv.u>>) EXCEPT !.req[c] = ms.rv.p]
              [] sg = "Random" ->
                    LET mr == WideRanks(m0, s, 1, <<>>)
                        mu == WideUtils(mr, s, 1, mr.rv.ranks, mr.rv.top, <<>>, "change")
                        mx == ResolveRandom(mu, s, mu.rv.utils, mu.rv.sum, mr.rv.ranks, mr.rv.top)
                    IN [mx EXCEPT !.req[c] = mx.rv]

DeepRequestRestart(m, s, rq) ==
    LET m0 == Pin(m, s, rq.i) IN
    CASE St[s].kind = "S" -> m0
      [] St[s].kind = "O" -> WideAll(m0, s, rq, "restart", 1)
      [] St[s].kind = "C" -> DeepRequestRestart([m0 EXCEPT !.req[St[s].compo] = 1], Kid(s, 1), rq)

DeepRequestResume(m, s, rq) ==
    LET m0 == Pin(m, s, rq.i) IN
    CASE St[s].kind = "S" -> m0
      [] St[s].kind = "O" -> WideAll(m0, s, rq, "resume", 1)
      [] St[s].kind = "C" ->
            LET c == St[s].compo
                r == IF m0.res[c] # 0 THEN m0.res[c] ELSE 1
            IN DeepRequestResume([m0 EXCEPT !.req[c] = r], Kid(s, r), rq)

DeepRequestSelect(m, s, rq) ==
    LET m0 == Pin(m, s, rq.i) IN
    CASE St[s].kind = "S" -> m0
      [] St[s].kind = "O" -> WideAll(m0, s, rq, "select", 1)
      [] St[s].kind = "C" ->
            LET c  == St[s].compo
                r  == SelectOf(m0, s)
                m1 == Log(FireReport(m0, s, "select"), <<"sel", s, r>>)
            IN DeepRequestSelect([m1 EXCEPT !.req[c] = r], Kid(s, r), rq)

DeepRequestUtilize(m, s, rq) ==
    LET m0 == Pin(m, s, rq.i) IN
    CASE St[s].kind = "S" -> m0
      [] St[s].kind = "O" -> WideAll(m0, s, rq, "utilize", 1)
      [] St[s].kind = "C" ->
            LET ms == WideBest(m0, s, 1, [u |-> RZero, p |-> 0], "utilize")
            IN [Log(ms, <<"ut", s, ms.rv.p, ms.rv.u>>) EXCEPT !.req[St[s].compo] = ms.rv.p]

DeepRequestRandomize(m, s, rq) ==
    LET m0 == Pin(m, s, rq.i) IN
    CASE St[s].kind = "S" -> m0
      [] St[s].kind = "O" -> WideAll(m0, s, rq, "randomize", 1)
      [] St[s].kind = "C" ->
            LET mr == WideRanks(m0, s, 1, <<>>)
                mu == WideUtils(mr, s, 1, mr.rv.ranks, mr.rv.top, <<>>, "randomize")
                mx == ResolveRandom(mu, s, mu.rv.utils, mu.rv.sum, mr.rv.ranks, mr.rv.top)
            IN [mx EXCEPT !.req[St[s].compo] = mx.rv]

\* R_::applyRequest
ApplyRequest(m, r, i) ==
    LET rq == [k |-> r[3], i |-> i] IN
    IF r[3] = "schedule" THEN RequestScheduled(m, r[2])
    ELSE IF r[2] = 1 THEN DeepRequest(m, 1, rq)
    ELSE DeepForwardActive(RequestImmediate(m, r[2]), 1, rq)

RECURSIVE ApplyAllFrom(_, _, _, _)
ApplyAllFrom(m, rs, i, off) == IF i > Len(rs) THEN m ELSE ApplyAllFrom(ApplyRequest(m, rs[i], off + i), rs, i + 1, off)
RECURSIVE ApplyAll(_, _, _)
ApplyAll(m, rs, i) == IF i > Len(rs) THEN m ELSE ApplyAll(ApplyRequest(m, rs[i], i), rs, i + 1)

---------------------------------------------------------------------------
(* Guards.  Result in m.ok; short-circuit exactly as && in the code.       *)

RECURSIVE DeepForwardExitGuard(_, _), DeepExitGuard(_, _), DeepForwardEntryGuard(_, _), DeepEntryGuard(_, _),
          WideGuardO(_, _, _, _, _, _)

\* S_::deepEntryGuard / deepExitGuard
StateGuard(m, s, me) ==
    LET before == m.cancelled
        m1 == Fire(m, s, me)
    IN [m1 EXCEPT !.ok = before \/ ~m1.cancelled]

\* OS_::wide*Guard : every sub-state evaluated, results and-ed (no short circuit)
\* which \in {"fx","x","fe","e"}; sel = set of prongs to visit (others count as TRUE)
WideGuardO(m, s, which, sel, i, acc) ==
    IF i > St[s].width THEN [m EXCEPT !.ok = acc]
    ELSE IF i \notin sel THEN WideGuardO(m, s, which, sel, i + 1, acc)
    ELSE LET k  == Kid(s, i)
             m1 == CASE which = "fx" -> DeepForwardExitGuard(m, k)
                     [] which = "x"  -> DeepExitGuard(m, k)
                     [] which = "fe" -> DeepForwardEntryGuard(m, k)
                     [] which = "e"  -> DeepEntryGuard(m, k)
         IN WideGuardO(m1, s, which, sel, i + 1, acc /\ m1.ok)

AllProngs(s) == 1 .. St[s].width

DeepForwardExitGuard(m, s) ==
    CASE St[s].kind = "S" -> [m EXCEPT !.ok = FALSE]      \* state_1.hpp : returns false
      [] St[s].kind = "C" ->
            LET c  == St[s].compo
                mi == ScopeIn(m, s)
                m1 == IF m.req[c] = 0 THEN DeepForwardExitGuard(mi, Kid(s, m.act[c]))
                      ELSE DeepExitGuard(mi, Kid(s, m.act[c]))
            IN ScopeOut(m1, m)
      [] St[s].kind = "O" ->
            LET o  == St[s].ortho
                mi == ScopeIn(m, s)
                m1 == IF m.oreq[o] # {} THEN WideGuardO(mi, s, "fx", m.oreq[o], 1, TRUE)
                      ELSE WideGuardO(mi, s, "fx", AllProngs(s), 1, TRUE)
            IN ScopeOut(m1, m)

DeepExitGuard(m, s) ==
    CASE St[s].kind = "S" -> StateGuard(m, s, "exitGuard")
      [] St[s].kind = "C" ->
            LET mi == ScopeIn(m, s)
                m1 == DeepExitGuard(mi, Kid(s, m.act[St[s].compo]))
                m2 == IF m1.ok THEN StateGuard(m1, s, "exitGuard") ELSE m1
            IN ScopeOut(m2, m)
      [] St[s].kind = "O" ->
            LET mi == ScopeIn(m, s)
                m1 == WideGuardO(mi, s, "x", AllProngs(s), 1, TRUE)
                m2 == IF m1.ok THEN StateGuard(m1, s, "exitGuard") ELSE m1
            IN ScopeOut(m2, m)

DeepForwardEntryGuard(m, s) ==
    CASE St[s].kind = "S" -> [m EXCEPT !.ok = TRUE]
      [] St[s].kind = "C" ->
            LET c  == St[s].compo
                mi == ScopeIn(m, s)
                m1 == IF m.req[c] = 0 THEN DeepForwardEntryGuard(mi, Kid(s, m.act[c]))
                      ELSE DeepEntryGuard(mi, Kid(s, m.req[c]))
            IN ScopeOut(m1, m)
      [] St[s].kind = "O" ->
            LET o  == St[s].ortho
                mi == ScopeIn(m, s)
                m1 == IF m.oreq[o] # {} THEN WideGuardO(mi, s, "fe", m.oreq[o], 1, TRUE)
                      ELSE WideGuardO(mi, s, "fe", AllProngs(s), 1, TRUE)
            IN ScopeOut(m1, m)

DeepEntryGuard(m, s) ==
    CASE St[s].kind = "S" -> StateGuard(m, s, "entryGuard")
      [] St[s].kind = "C" ->
            LET mi == ScopeIn(m, s)
                m1 == StateGuard(mi, s, "entryGuard")
                m2 == IF m1.ok THEN DeepEntryGuard(m1, Kid(s, m.req[St[s].compo])) ELSE m1
            IN ScopeOut(m2, m)
      [] St[s].kind = "O" ->
            LET mi == ScopeIn(m, s)
                m1 == StateGuard(mi, s, "entryGuard")
                m2 == IF m1.ok THEN WideGuardO(m1, s, "e", AllProngs(s), 1, TRUE) ELSE m1
            IN ScopeOut(m2, m)

---------------------------------------------------------------------------
(* Lifecycle                                                               *)

RECURSIVE DeepEnter(_, _), DeepExit(_, _), DeepReenter(_, _), DeepChangeToRequested(_, _),
          WideLifeO(_, _, _, _)

StateEnter(m, s)   == Fire(m, s, "enter")
StateReenter(m, s) == Fire(m, s, "reenter")
\* S_::deepExit clears the state's marks; the EmptyT specialisation does not
StateExit(m, s)    == IF ~HasUser(s) THEN Fire(m, s, "exit")
                      ELSE LET m1 == Fire(m, s, "exit") IN [m1 EXCEPT !.succ = @ \ {s}, !.fail = @ \ {s}]

WideLifeO(m, s, op, i) ==
    IF i > St[s].width THEN m
    ELSE LET k == Kid(s, i)
             m1 == CASE op = "enter"   -> DeepEnter(m, k)
                     [] op = "exit"    -> DeepExit(m, k)
                     [] op = "reenter" -> DeepReenter(m, k)
                     [] op = "change"  -> DeepChangeToRequested(m, k)
         IN WideLifeO(m1, s, op, i + 1)

DeepEnter(m, s) ==
    CASE St[s].kind = "S" -> StateEnter(m, s)
      [] St[s].kind = "C" ->
            LET c  == St[s].compo
                m1 == [m EXCEPT !.act[c] = m.req[c],
                                !.res[c] = IF m.req[c] = m.res[c] THEN 0 ELSE @,
                                !.req[c] = 0]
                m2 == StateEnter(ScopeIn(m1, s), s)
                m3 == DeepEnter(m2, Kid(s, m1.act[c]))
            IN ScopeOut(m3, m)
      [] St[s].kind = "O" ->
            LET m1 == [m EXCEPT !.oreq[St[s].ortho] = {}]
                m2 == StateEnter(ScopeIn(m1, s), s)
                m3 == WideLifeO(m2, s, "enter", 1)
            IN ScopeOut(m3, m)

DeepExit(m, s) ==
    CASE St[s].kind = "S" -> StateExit(m, s)
      [] St[s].kind = "C" ->
            LET c  == St[s].compo
                m1 == DeepExit(m, Kid(s, m.act[c]))
                m2 == StateExit(m1, s)
            IN [m2 EXCEPT !.res[c] = m.act[c], !.act[c] = 0]
      [] St[s].kind = "O" ->
            StateExit(WideLifeO(m, s, "exit", 1), s)

DeepReenter(m, s) ==
    CASE St[s].kind = "S" -> StateReenter(m, s)
      [] St[s].kind = "C" ->
            LET c  == St[s].compo
                a  == m.act[c]   r == m.req[c]
                m1 == StateReenter(ScopeIn(m, s), s)
                m2 == IF a = r THEN DeepReenter(m1, Kid(s, a))
                      ELSE LET mx == DeepExit(m1, Kid(s, a))
                               my == [mx EXCEPT !.res[c] = a, !.act[c] = r]
                           IN DeepEnter(my, Kid(s, r))
            IN ScopeOut([m2 EXCEPT !.req[c] = 0], m)
      [] St[s].kind = "O" ->
            LET m1 == [m EXCEPT !.oreq[St[s].ortho] = {}]
                m2 == StateReenter(ScopeIn(m1, s), s)
                m3 == WideLifeO(m2, s, "reenter", 1)
            IN ScopeOut(m3, m)

DeepChangeToRequested(m, s) ==
    CASE St[s].kind = "S" -> m
      [] St[s].kind = "O" -> WideLifeO(m, s, "change", 1)
      [] St[s].kind = "C" ->
            LET c  == St[s].compo
                a  == m.act[c]   r == m.req[c]
                mi == ScopeIn(m, s)
                m1 == IF r = 0 THEN DeepChangeToRequested(mi, Kid(s, a))
                      ELSE IF r # a THEN
                          LET mx == DeepExit(mi, Kid(s, a))
                              my == [mx EXCEPT !.res[c] = a, !.act[c] = r, !.req[c] = 0]
                          IN DeepEnter(my, Kid(s, r))
                      ELSE IF c \in m.rem THEN
                          LET mx == DeepExit(mi, Kid(s, a))
                          IN DeepEnter([mx EXCEPT !.req[c] = 0], Kid(s, a))
                      ELSE DeepReenter([mi EXCEPT !.req[c] = 0], Kid(s, a))
            IN ScopeOut(m1, m)

---------------------------------------------------------------------------
(* Processing (root_0.inl)                                                 *)

ClearRequests(m) == [m EXCEPT !.req = [c \in Compos |-> 0], !.oreq = NoOrthoRequests, !.rem = {}]
BackUp(m)        == [req |-> m.req, oreq |-> m.oreq]
RegDiffers(m, b) == m.req # b.req \/ m.oreq # b.oreq

\* udpateActivity (structure report)
UpdateActivity(m) ==
    [m EXCEPT !.sa = ActiveMask(m), !.activity = [s \in States |->
        LET a == m.activity[s] IN
        IF IsActive(m, s) THEN (IF a < 0 THEN 1 ELSE IF a < 127 THEN a + 1 ELSE a)
        ELSE (IF a > 0 THEN 0 - 1 ELSE IF a > 0 - 128 THEN a - 1 ELSE a)]]

\* (explicit tuples, see StatusCodes)
RECURSIVE ReqTuple(_, _), RemTuple(_, _), OreqTuple(_, _), BitTuple(_, _, _)
ReqTuple(m, c) == IF c > COMPO_COUNT THEN <<>> ELSE <<m.req[c]>> \o ReqTuple(m, c + 1)
RemTuple(m, c) == IF c > COMPO_COUNT THEN <<>> ELSE <<IF c \in m.rem THEN 1 ELSE 0>> \o RemTuple(m, c + 1)
BitTuple(set, p, w) == IF p > w THEN <<>> ELSE <<IF p \in set THEN 1 ELSE 0>> \o BitTuple(set, p + 1, w)
OreqTuple(m, x) == IF x > ORTHO_COUNT THEN <<>> ELSE <<BitTuple(m.oreq[x], 1, St[OrthoHead(x)].width)>> \o OreqTuple(m, x + 1)
SnapshotPending(m) == [m EXCEPT !.ope = PendEMask(m), !.opx = PendXMask(m), !.opc = PendCMask(m),
                                !.oreg = <<ReqTuple(m, 1), RemTuple(m, 1), OreqTuple(m, 1)>>]

ApprovedByGuards(m) ==
    LET g  == SnapshotPending(NewControl(m))
        m1 == DeepForwardExitGuard(g, 1)
    IN IF m1.ok THEN DeepForwardEntryGuard(m1, 1) ELSE m1

ApprovedByEntryGuards(m) == DeepEntryGuard(SnapshotPending(NewControl(m)), 1)

RECURSIVE Rounds(_, _, _, _)
Rounds(m, n, b, initial) ==
    IF n >= Cfg.limit \/ Len(m.q) = 0 THEN m ELSE
    \* a request is known to the transition history by its position in the step's whole list of approved requests:
    \* the requests of this round follow those of the rounds approved before it
    LET m1 == ApplyAllFrom(m, m.q, 1, Len(m.cur)) IN
    IF RegDiffers(m1, b) THEN
        LET m2 == [m1 EXCEPT !.pend = m1.q, !.q = <<>>]
            m3 == IF initial THEN ApprovedByEntryGuards(m2) ELSE ApprovedByGuards(m2)
        IN IF m3.ok
           THEN Rounds([m3 EXCEPT !.cur = @ \o m3.pend, !.pend = <<>>,
                                  !.rounds = Append(@, <<"approved", m3.pend>>)],
                       n + 1, BackUp(m3), initial)
           ELSE Rounds([m3 EXCEPT !.tt = IF initial THEN @ ELSE [s \in States |-> 0],
                                  !.req = b.req, !.oreq = b.oreq, !.pend = <<>>,
                                  !.rounds = Append(@, <<"vetoed", m3.pend>>)],
                       n + 1, b, initial)
    ELSE Rounds([m1 EXCEPT !.q = <<>>, !.rounds = Append(@, <<"noop", m1.q>>)], n + 1, b, initial)

\* R_::processTransitions + the tail of processRequest
ProcessRequest(m) ==
    LET m0 == [m EXCEPT !.tt = [s \in States |-> 0], !.cur = <<>>, !.pend = <<>>] IN
    IF Len(m0.q) = 0 THEN [m0 EXCEPT !.prev = <<>>]
    ELSE LET m1 == Rounds(NewControl(m0), 0, BackUp(m0), FALSE)
             m2 == IF Len(m1.cur) > 0 THEN DeepChangeToRequested(NewControl(m1), 1) ELSE m1
             m3 == ClearRequests([m2 EXCEPT !.q = <<>>])     \* requests left when the limit is hit stay queued?
         IN UpdateActivity([m3 EXCEPT !.prev = m3.cur])

\* R_::initialEnter
InitialEnter(m) ==
    LET m0 == [m EXCEPT !.tt = [s \in States |-> 0], !.cur = <<>>, !.pend = <<>>]
        m1 == DeepRequestChange(NewControl(m0), 1, [k |-> "change", i |-> 0])
        m2 == ApprovedByEntryGuards(m1)
        m3 == Rounds(m2, 0, BackUp(m2), TRUE)
        m4 == [m3 EXCEPT !.prev = m3.cur]
        m5 == DeepEnter(NewControl(m4), 1)
    IN UpdateActivity(ClearRequests(m5))

\* R_::finalExit
FinalExit(m) ==
    LET m1 == DeepExit(NewControl(m), 1) IN
    UpdateActivity([m1 EXCEPT !.act = [c \in Compos |-> 0], !.res = [c \in Compos |-> 0],
                              !.req = [c \in Compos |-> 0], !.oreq = NoOrthoRequests, !.rem = {},
                              !.q = <<>>, !.plans = [r \in Regions |-> <<>>], !.pex = {},
                              !.succ = {}, !.fail = {},
                              !.hst = [r \in Regions |-> TSNone], !.sst = [r \in Regions |-> TSNone],
                              !.tt = [s \in States |-> 0], !.prev = <<>>])

\* R_::reset
Reset(m) ==
    LET m1 == DeepExit(NewControl(m), 1)
        m2 == [m1 EXCEPT !.tt = [s \in States |-> 0], !.prev = <<>>,
                         !.act = [c \in Compos |-> 0], !.res = [c \in Compos |-> 0],
                         !.req = [c \in Compos |-> 0], !.oreq = NoOrthoRequests, !.rem = {}]
        m3 == DeepRequestChange(m2, 1, [k |-> "restart", i |-> 0])
    IN UpdateActivity(ClearRequests(DeepEnter(m3, 1)))

---------------------------------------------------------------------------
(* update / react / query (composite.inl, orthogonal.inl, reactions.inl)   *)

RECURSIVE DeepUpdate(_, _, _), WideUpdateO(_, _, _, _, _)

\* D15 (open finding): control._taskStatus is one variable per region scope.  Where the sub-states run BEFORE their
\* head (postUpdate; preReact / react bottom-up; postReact top-down) a plain sub-state's succeed() / fail() is still in
\* it when the head's method returns, so the head is taken to have succeeded / failed itself: the region's plan is not
\* advanced and the status is passed outward.  Intended: the head's status is what the head's own method set.
BeforeHead(m, s) ==
    IF m.ts = TSNone \/ ~HasUser(s) THEN m
    ELSE IF "TaskStatusLeaks" \in m.dev THEN [m EXCEPT !.notes = @ \cup {"D15"}]
    ELSE [m EXCEPT !.ts = TSNone]

\* phase \in UpdateMethods; result status in m.rv
WideUpdateO(m, s, phase, i, acc) ==
    IF i > St[s].width THEN [m EXCEPT !.rv = acc]
    ELSE LET m1 == DeepUpdate(m, Kid(s, i), phase) IN WideUpdateO(m1, s, phase, i + 1, TSOr(acc, m1.rv))

DeepUpdate(m, s, phase) ==
    IF St[s].kind = "S" THEN LET m1 == Fire(m, s, phase) IN [m1 EXCEPT !.rv = m1.ts]
    ELSE
    LET r  == St[s].region
        mi == ScopeIn(m, s)
        Sub(mm) == IF St[s].kind = "C" THEN DeepUpdate(mm, Kid(s, mm.act[St[s].compo]), phase)
                   ELSE WideUpdateO(mm, s, phase, 1, TSNone)
    IN IF phase # "postUpdate" THEN
            LET mh == Fire(mi, s, phase)
                h  == IF HasUser(s) THEN mh.ts ELSE TSNone      \* the EmptyT head returns TaskStatus{}
                m1 == [mh EXCEPT !.hst[r] = TSOr(@, h)]
                m2 == Sub(m1)
                m3 == [m2 EXCEPT !.sst[r] = TSOr(@, m2.rv)]
            IN [ScopeOut(m3, m) EXCEPT !.rv = h]
       ELSE
            LET m1 == Sub(mi)
                m2 == [m1 EXCEPT !.sst[r] = TSOr(@, m1.rv)]
                mh == Fire(BeforeHead(m2, s), s, phase)
                h  == IF HasUser(s) THEN mh.ts ELSE TSNone      \* the EmptyT head returns TaskStatus{}
                m3 == [mh EXCEPT !.hst[r] = TSOr(@, h)]
            IN [ScopeOut(m3, m) EXCEPT !.rv = h]

RECURSIVE DeepReact(_, _, _), WideReactO(_, _, _, _, _)

\* OS_::wide{PreReact,React,PostReact} : the remaining sub-states are skipped once the event is consumed
WideReactO(m, s, phase, i, acc) ==
    IF i > St[s].width \/ (i > 1 /\ m.consumed) THEN [m EXCEPT !.rv = acc]
    ELSE LET m1 == DeepReact(m, Kid(s, i), phase) IN WideReactO(m1, s, phase, i + 1, TSOr(acc, m1.rv))

\* the eight *ReactWrapperT specialisations; head-first = (pre/react: TopDown) or (post: BottomUp)
DeepReact(m, s, phase) ==
    IF St[s].kind = "S" THEN LET m1 == Fire(m, s, phase) IN [m1 EXCEPT !.rv = m1.ts]
    ELSE
    LET r  == St[s].region
        mi == ScopeIn(m, s)
        Sub(mm) == IF St[s].kind = "C" THEN DeepReact(mm, Kid(s, mm.act[St[s].compo]), phase)
                   ELSE WideReactO(mm, s, phase, 1, TSNone)
        HeadCb(mm) == LET mh == Fire(mm, s, phase) IN [mh EXCEPT !.rv = IF HasUser(s) THEN mh.ts ELSE TSNone]
        headFirst == IF phase = "postReact" THEN Cfg.order = "BottomUp" ELSE Cfg.order = "TopDown"
    IN IF mi.consumed THEN [ScopeOut(mi, m) EXCEPT !.rv = TSNone]
       ELSE IF phase # "postReact" THEN
            \* first part's status is returned; second part runs only if not consumed
            IF headFirst THEN
                LET m1 == HeadCb(mi)   h == m1.rv
                    m2 == [m1 EXCEPT !.hst[r] = TSOr(@, h)]
                    m3 == IF ~m2.consumed THEN LET mx == Sub(m2) IN [mx EXCEPT !.sst[r] = TSOr(@, mx.rv)] ELSE m2
                IN [ScopeOut(m3, m) EXCEPT !.rv = h]
            ELSE
                LET m1 == Sub(mi)    h == m1.rv
                    m2 == [m1 EXCEPT !.sst[r] = TSOr(@, h)]
                    m3 == IF ~m2.consumed THEN LET mx == HeadCb(BeforeHead(m2, s)) IN [mx EXCEPT !.hst[r] = TSOr(@, mx.rv)] ELSE m2
                IN [ScopeOut(m3, m) EXCEPT !.rv = h]
       ELSE
            \* postReact: second part's status is returned (NONE when it did not run)
            IF headFirst THEN
                LET m1 == HeadCb(mi)
                    m2 == [m1 EXCEPT !.hst[r] = TSOr(@, m1.rv)]
                IN IF ~m2.consumed
                   THEN LET mx == Sub(m2)  h == mx.rv IN [ScopeOut([mx EXCEPT !.sst[r] = TSOr(@, h)], m) EXCEPT !.rv = h]
                   ELSE [ScopeOut(m2, m) EXCEPT !.rv = TSNone]
            ELSE
                LET m1 == Sub(mi)
                    m2 == [m1 EXCEPT !.sst[r] = TSOr(@, m1.rv)]
                IN IF ~m2.consumed
                   THEN LET mx == HeadCb(BeforeHead(m2, s))  h == mx.rv IN [ScopeOut([mx EXCEPT !.hst[r] = TSOr(@, h)], m) EXCEPT !.rv = h]
                   ELSE [ScopeOut(m2, m) EXCEPT !.rv = TSNone]

RECURSIVE DeepQuery(_, _), WideQueryO(_, _, _)
WideQueryO(m, s, i) == IF i > St[s].width \/ (i > 1 /\ m.consumed) THEN m ELSE WideQueryO(DeepQuery(m, Kid(s, i)), s, i + 1)

DeepQuery(m, s) ==
    IF St[s].kind = "S" THEN Fire(m, s, "query")
    ELSE
    LET Sub(mm) == IF St[s].kind = "C" THEN DeepQuery(mm, Kid(s, mm.act[St[s].compo])) ELSE WideQueryO(mm, s, 1)
        HeadCb(mm) == Fire(mm, s, "query")
        mi == [m EXCEPT !.rid = St[s].region]
        m1 == IF Cfg.order = "TopDown"
              THEN LET a == IF ~mi.consumed THEN HeadCb(mi) ELSE mi IN IF ~a.consumed THEN Sub(a) ELSE a
              ELSE LET a == IF ~mi.consumed THEN Sub(mi) ELSE mi IN IF ~a.consumed THEN HeadCb(a) ELSE a
    IN ScopeOutC(m1, m)

---------------------------------------------------------------------------
(* Plans (control_3.inl : updatePlan; composite.inl / orthogonal.inl : deepUpdatePlans) *)

RECURSIVE DeepUpdatePlans(_, _), WideUpdatePlansO(_, _, _, _)

WideUpdatePlansO(m, s, i, acc) ==
    IF i > St[s].width THEN [m EXCEPT !.rv = acc]
    ELSE LET m1 == DeepUpdatePlans(m, Kid(s, i)) IN WideUpdatePlansO(m1, s, i + 1, TSOr(acc, m1.rv))

StateStatus(m, s) == IF s \in m.fail THEN [r |-> 2, ot |-> FALSE]
                     ELSE IF s \in m.succ THEN [r |-> 1, ot |-> FALSE] ELSE TSNone

\* planSucceeded / planFailed : user override, or the default of A_<> (control.succeed() / control.fail())
FirePlan(m, s, me) ==
    LET m0 == LogMethod(m, s, me) IN
    IF ~HasUser(s) THEN m0                                  \* EmptyT specialisation: wrapPlan* do nothing
    ELSE IF Overridden(s, me) THEN Fire1(m0, s, me)         \* no injected handlers for plan callbacks
    ELSE LET m1 == ApplyOp([m0 EXCEPT !.org = s], me, <<IF me = "planSucceeded" THEN "succeed" ELSE "fail", s>>)
         IN [m1 EXCEPT !.org = m.org]

KeepNot(seq, removed) ==
    LET RECURSIVE K(_)
        K(i) == IF i > Len(seq) THEN <<>> ELSE (IF i \in removed THEN <<>> ELSE <<seq[i]>>) \o K(i + 1)
    IN K(1)

\* FullControlT::updatePlan  (m is inside the region's scope; head = region head)
UpdatePlan(m, head, sub) ==
    LET r == m.rid IN
    IF sub.r = 2 THEN
        LET m2 == FirePlan(Log([m EXCEPT !.ts.r = 2], <<"ps", m.rs, "failed">>), head, "planFailed")
        IN [m2 EXCEPT !.rv = [r |-> m2.ts.r, ot |-> FALSE]]
    ELSE IF sub.r = 1 THEN
        IF Len(m.plans[r]) > 0 THEN
            LET tasks == m.plans[r]
                RECURSIVE Loop(_, _, _, _)
                Loop(mm, i, removed, deferred) ==
                    IF i > Len(tasks) \/ ~IsActive(mm, tasks[i][1])
                    THEN [mm EXCEPT !.succ = @ \ deferred, !.plans[r] = KeepNot(tasks, removed), !.rv = TSNone]
                    ELSE LET t == tasks[i] IN
                         IF t[1] \in mm.succ THEN
                            \* D9 (open finding): the code issues changeTo / changeWith whatever the task's kind
                            LET dev  == "PlanTaskKindIgnored" \in mm.dev /\ t[3] # "change"
                                kind == IF dev THEN "change" ELSE t[3]
                                m1   == CtlRequest([mm EXCEPT !.org = head], kind, t[2], t[4])
                                m2   == [m1 EXCEPT !.org = mm.org, !.notes = IF dev THEN @ \cup {"D9"} ELSE @]
                                cyc  == t[1] = t[2]
                            IN Loop(IF cyc THEN [m2 EXCEPT !.succ = @ \ {t[1]}] ELSE m2,
                                    i + 1, removed \cup {i}, IF cyc THEN deferred ELSE deferred \cup {t[1]})
                         ELSE Loop(mm, i + 1, removed, deferred)
            IN Loop([m EXCEPT !.pexec = TRUE], 1, {}, {})
        ELSE
            LET m2 == FirePlan(Log([m EXCEPT !.ts.r = 1], <<"ps", m.rs, "succeeded">>), head, "planSucceeded")
            IN [m2 EXCEPT !.rv = [r |-> m2.ts.r, ot |-> FALSE]]
    ELSE [m EXCEPT !.rv = TSNone]

DeepUpdatePlans(m, s) ==
    IF St[s].kind = "S" THEN [m EXCEPT !.rv = StateStatus(m, s)]
    ELSE
    LET r  == St[s].region
        h  == TSOr(m.hst[r], StateStatus(m, s))
        m1 == IF St[s].kind = "C" THEN DeepUpdatePlans(m, Kid(s, m.act[St[s].compo]))
              ELSE WideUpdatePlansO(m, s, 1, TSNone)
        sb == TSOr(m.sst[r], m1.rv)
    IN IF TSBool(h) THEN [m1 EXCEPT !.rv = h]
       ELSE IF sb.ot THEN [m1 EXCEPT !.rv = [r |-> 0, ot |-> TRUE]]
       ELSE LET mi == ScopeIn(m1, s)
                m2 == IF TSBool(sb) /\ r \in mi.pex THEN UpdatePlan(mi, s, sb) ELSE [mi EXCEPT !.rv = sb]
            IN ScopeOut(m2, m1)

ClearStatuses(m) == [m EXCEPT !.succ = {}, !.fail = {},
                              !.hst = [r \in Regions |-> TSNone], !.sst = [r \in Regions |-> TSNone]]

---------------------------------------------------------------------------
(* Serialization (composite*.inl deepSave* / deepLoad*, root_0.inl, root_1.inl).                     *)
(* A buffer is a sequence of bits, packed LSB-first into bytes by BitWriteStreamT.                   *)

BitsOf(v, w)   == [i \in 1 .. w |-> (v \div (2 ^ (i - 1))) % 2]
WidthBits(s)   == BitContain(St[s].width)

RECURSIVE SaveActive(_, _), SaveResumable(_, _), SaveKids(_, _, _, _)

SaveRes(m, s) == LET c == St[s].compo IN
                 IF m.res[c] # 0 THEN <<1>> \o BitsOf(m.res[c] - 1, WidthBits(s)) ELSE <<0>>

\* kids of s from i on; mode -1: all active (orthogonal), 0: all resumable-only, n > 0: only kid n active
SaveKids(m, s, i, mode) ==
    IF i > St[s].width THEN <<>>
    ELSE (IF mode = 0 - 1 \/ mode = i THEN SaveActive(m, Kid(s, i)) ELSE SaveResumable(m, Kid(s, i)))
         \o SaveKids(m, s, i + 1, mode)

SaveActive(m, s) ==
    CASE St[s].kind = "S" -> <<>>
      [] St[s].kind = "O" -> SaveKids(m, s, 1, 0 - 1)
      [] St[s].kind = "C" -> BitsOf(m.act[St[s].compo] - 1, WidthBits(s)) \o SaveRes(m, s)
                             \o SaveKids(m, s, 1, m.act[St[s].compo])

SaveResumable(m, s) ==
    CASE St[s].kind = "S" -> <<>>
      [] St[s].kind = "O" -> SaveKids(m, s, 1, 0)
      [] St[s].kind = "C" -> SaveRes(m, s) \o SaveKids(m, s, 1, 0)

EncodeBits(m) == IF On(m) THEN <<1>> \o SaveActive(m, 1) ELSE <<0>>

BYTE_COUNT == Contain(SERIAL_BITS, 8)
PackBytes(bits) ==
    [b \in 1 .. BYTE_COUNT |->
        LET RECURSIVE V(_)
            V(i) == IF i > 8 THEN 0
                    ELSE (IF (b - 1) * 8 + i <= Len(bits) THEN bits[(b - 1) * 8 + i] * (2 ^ (i - 1)) ELSE 0) + V(i + 1)
        IN V(1)]
UnpackBytes(bytes) == [i \in 1 .. Len(bytes) * 8 |-> (bytes[((i - 1) \div 8) + 1] \div (2 ^ ((i - 1) % 8))) % 2]

Encode(m) == PackBytes(EncodeBits(m))

ReadBits(bits, pos, w) ==
    LET RECURSIVE V(_)
        V(i) == IF i > w THEN 0 ELSE bits[pos + i - 1] * (2 ^ (i - 1)) + V(i + 1)
    IN V(1)

RECURSIVE LoadRequested(_, _, _, _), LoadResumable(_, _, _, _), LoadKids(_, _, _, _, _, _)

\* all return <<m, pos>>
LoadKids(m, s, bits, pos, i, mode) ==
    IF i > St[s].width THEN <<m, pos>>
    ELSE LET r == IF mode = 0 - 1 \/ mode = i THEN LoadRequested(m, Kid(s, i), bits, pos)
                  ELSE LoadResumable(m, Kid(s, i), bits, pos)
         IN LoadKids(r[1], s, bits, r[2], i + 1, mode)

LoadRequested(m, s, bits, pos) ==
    CASE St[s].kind = "S" -> <<m, pos>>
      [] St[s].kind = "O" -> LoadKids(m, s, bits, pos, 1, 0 - 1)
      [] St[s].kind = "C" ->
            LET c   == St[s].compo  w == WidthBits(s)
                rq  == ReadBits(bits, pos, w) + 1
                has == bits[pos + w] = 1
                rs  == IF has THEN ReadBits(bits, pos + w + 1, w) + 1 ELSE 0
                m1  == [m EXCEPT !.req[c] = rq, !.res[c] = rs]
            IN LoadKids(m1, s, bits, pos + w + 1 + (IF has THEN w ELSE 0), 1, rq)

LoadResumable(m, s, bits, pos) ==
    CASE St[s].kind = "S" -> <<m, pos>>
      [] St[s].kind = "O" -> LoadKids(m, s, bits, pos, 1, 0)
      [] St[s].kind = "C" ->
            LET c   == St[s].compo  w == WidthBits(s)
                has == bits[pos] = 1
                rs  == IF has THEN ReadBits(bits, pos + 1, w) + 1 ELSE 0
                m1  == [m EXCEPT !.res[c] = rs]
            IN LoadKids(m1, s, bits, pos + 1 + (IF has THEN w ELSE 0), 1, 0)

\* R_::load (active instance) : the loaded resumable marks survive the change
LoadActive(m, bits) ==
    LET m0 == [ClearRequests(m) EXCEPT !.res = [c \in Compos |-> 0]]
        m1 == LoadRequested(m0, 1, bits, 2)[1]
        m2 == [m1 EXCEPT !.q = <<>>, !.plans = [r \in Regions |-> <<>>], !.pex = {}, !.succ = {}, !.fail = {},
                         !.hst = [r \in Regions |-> TSNone], !.sst = [r \in Regions |-> TSNone],
                         !.tt = [s \in States |-> 0], !.prev = <<>>]
        m3 == DeepChangeToRequested(NewControl(m2), 1)
    IN UpdateActivity([m3 EXCEPT !.res = m1.res])

\* RV_<Manual>::loadEnter (inactive instance)
LoadEnter(m, bits) ==
    LET m1 == LoadRequested(m, 1, bits, 2)[1]
        m2 == DeepEnter(NewControl(m1), 1)
    IN UpdateActivity([m2 EXCEPT !.res = m1.res])

---------------------------------------------------------------------------
(* Replay (root_0.inl replayTransitions / applyRequests, root_1.inl replayEnter)                     *)

Truncate(seq, n) == IF Len(seq) <= n THEN seq ELSE SubSeq(seq, 1, n)

Replay(m, list) ==            \* m.ok = return value
    LET m0 == [m EXCEPT !.tt = [s \in States |-> 0], !.prev = <<>>] IN
    IF Len(list) = 0 THEN [m0 EXCEPT !.ok = FALSE]
    ELSE LET m1 == ApplyAll(NewControl(m0), list, 1) IN
         IF RegDiffers(m1, BackUp(m0))
         THEN LET m2 == DeepChangeToRequested([m1 EXCEPT !.prev = Truncate(list, HistCapacity)], 1)
              IN [UpdateActivity(ClearRequests(m2)) EXCEPT !.ok = TRUE]
         ELSE [m1 EXCEPT !.ok = FALSE]

ReplayEnter(m, list) ==
    LET m0 == [m EXCEPT !.tt = [s \in States |-> 0]] IN
    IF Len(list) = 0 THEN [m0 EXCEPT !.ok = FALSE]
    ELSE LET m1 == DeepRequestChange(NewControl(m0), 1, [k |-> "change", i |-> 0])
             m2 == ApplyAll(m1, list, 1)
         IN IF RegDiffers(m2, BackUp(m1))
            THEN LET m3 == DeepEnter([m2 EXCEPT !.prev = Truncate(list, HistCapacity)], 1)
                 IN [UpdateActivity(ClearRequests(m3)) EXCEPT !.ok = TRUE]
            ELSE [m2 EXCEPT !.ok = FALSE]

---------------------------------------------------------------------------
(* Public API: one operator per call.  `m` carries the persistent state,   *)
(* `sc` the script for this call.                                          *)

BeginCall(m, sc) ==
    [NewControl(m) EXCEPT !.notes = {}, !.ev = <<>>, !.draws = 0, !.plog = <<>>, !.log = <<>>, !.pexec = FALSE, !.rounds = <<>>, !.over = 0, !.ok = TRUE, !.rv = TSNone,
                          !.pend = <<>>, !.cur = <<>>, !.sc = sc,
                          !.oa = ActiveMask(m), !.osub = SubList(m)]

ApiEnter(m, sc)  == InitialEnter(BeginCall(m, sc))                      \* precondition ~On(m)
ApiExit(m, sc)   == FinalExit(BeginCall(m, sc))                         \* precondition On(m)
ApiReset(m, sc)  == Reset(BeginCall(m, sc))

ApiUpdate(m, sc) ==
    LET m0 == BeginCall(m, sc)
        m1 == DeepUpdate(m0, 1, "preUpdate")
        m2 == DeepUpdate(m1, 1, "update")
        m3 == DeepUpdate(m2, 1, "postUpdate")
        m4 == ClearStatuses(DeepUpdatePlans(m3, 1))
    IN ProcessRequest(m4)

ApiReact(m, sc) ==
    LET m0 == BeginCall(m, sc)
        m1 == DeepReact(m0, 1, "preReact")
        m2 == DeepReact([m1 EXCEPT !.consumed = FALSE], 1, "react")
        m3 == DeepReact([m2 EXCEPT !.consumed = FALSE], 1, "postReact")
        m4 == ClearStatuses(DeepUpdatePlans(m3, 1))
    IN ProcessRequest(m4)

ApiQuery(m, sc) == DeepQuery(BeginCall(m, sc), 1)

\* R_::changeTo & co : origin INVALID_STATE_ID
ApiQueue(m, k, d, p, sc) ==
    LET m0 == BeginCall(m, sc) IN
    \* R_::changeTo & co report the request (origin INVALID_STATE_ID) whether or not the queue had room
    Log(IF Len(m0.q) >= QueueCapacity THEN [m0 EXCEPT !.over = @ + 1]
        ELSE [m0 EXCEPT !.q = Append(@, <<0, d, k, p>>)], <<"t", 0, k, d>>)

ApiImmediate(m, k, d, p, sc) == ProcessRequest(ApiQueue(m, k, d, p, sc))

\* R_::succeed / fail report the region as INVALID_REGION_ID (a Short, 255) converted to StateID: the id 256 here
ExternalRegion == 256
ApiSucceed(m, s, sc) == LET m0 == BeginCall(m, sc) IN
                        IF s > 1 THEN Log([m0 EXCEPT !.succ = @ \cup {s}], <<"ts", ExternalRegion, s, "succeeded">>) ELSE m0
ApiFail(m, s, sc)    == LET m0 == BeginCall(m, sc) IN
                        IF s > 1 THEN Log([m0 EXCEPT !.fail = @ \cup {s}], <<"ts", ExternalRegion, s, "failed">>) ELSE m0

ApiPlanAppend(m, r, o, d, k, p, sc) == ApplyOp(BeginCall(m, sc), "update", <<"plan_append", r, o, d, k, p>>)
ApiPlanClear(m, r, sc)              == ApplyOp(BeginCall(m, sc), "update", <<"plan_clear", r>>)
ApiPlanRemove(m, r, i, sc)          == ApplyOp(BeginCall(m, sc), "update", <<"plan_remove", r, i>>)
ApiPlanSweep(m, r, mask, sc)        == ApplyOp(BeginCall(m, sc), "update", <<"plan_sweep", r, mask>>)

ApiSave(m, sc) == BeginCall(m, sc)

ApiLoad(m, bytes, sc) ==
    LET m0 == BeginCall(m, sc)  bits == UnpackBytes(bytes) IN
    IF bits[1] = 1 THEN (IF On(m0) THEN LoadActive(m0, bits) ELSE LoadEnter(m0, bits))
    ELSE IF On(m0) /\ Cfg.manual THEN FinalExit(m0) ELSE m0

\* <<"replay", source slot, n, o1, d1, k1, p1, ...>>
ListOf(a) == [i \in 1 .. a[3] |-> <<a[4 * i], a[4 * i + 1], a[4 * i + 2], a[4 * i + 3]>>]

\* dispatch on a label <<name, args...>> as logged by the executor
Step(m, a, sc) ==
    CASE a[1] = "enter"   -> ApiEnter(m, sc)
      [] a[1] = "exit"    -> ApiExit(m, sc)
      [] a[1] = "del"     -> IF On(m) /\ ~Cfg.manual THEN ApiExit(m, sc) ELSE BeginCall(m, sc)
      [] a[1] = "new"     -> LET b == [Blank EXCEPT !.dev = m.dev, !.lg = (Len(a) > 1 /\ a[2] = 1)] IN
                             IF Cfg.manual THEN BeginCall(b, sc) ELSE ApiEnter(b, sc)
      [] a[1] = "logger"  -> [BeginCall(m, sc) EXCEPT !.lg = (a[2] = 1)]      \* attachLogger(&logger / nullptr)
      [] a[1] = "reset"   -> ApiReset(m, sc)
      [] a[1] = "update"  -> ApiUpdate(m, sc)
      [] a[1] = "react"   -> ApiReact(m, sc)
      [] a[1] = "query"   -> ApiQuery(m, sc)
      [] a[1] = "queue"   -> ApiQueue(m, a[2], a[3], a[4], sc)
      [] a[1] = "imm"     -> ApiImmediate(m, a[2], a[3], a[4], sc)
      [] a[1] = "succeed" -> ApiSucceed(m, a[2], sc)
      [] a[1] = "fail"    -> ApiFail(m, a[2], sc)
      [] a[1] = "pa"      -> ApiPlanAppend(m, a[2], a[3], a[4], a[5], a[6], sc)
      [] a[1] = "pc"      -> ApiPlanClear(m, a[2], sc)
      [] a[1] = "pr"      -> ApiPlanRemove(m, a[2], a[3], sc)
      [] a[1] = "ps"      -> ApiPlanSweep(m, a[2], a[3], sc)
      [] a[1] = "save"    -> ApiSave(m, sc)
      [] a[1] = "load"    -> ApiLoad(m, Tail(a), sc)
      [] a[1] = "replay"  -> Replay(BeginCall(m, sc), ListOf(a))
      [] a[1] = "replayenter" -> ReplayEnter(BeginCall(m, sc), ListOf(a))
      [] a[1] = "copy"    -> BeginCall(m, sc)

===========================================================================
