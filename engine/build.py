"""Building conformance executors from /repo's CURRENT working tree (content-hashed cache)."""
import hashlib, os, subprocess, sys
from . import gen
from .tlc import VERIF, CACHE

REPO = os.environ.get("VERIF_REPO", "/repo")
HARNESS = os.path.join(VERIF, "harness")


def _hash_tree(h, root, exts=(".hpp", ".inl", ".h", ".cpp", ".py")):
    for dp, dn, fn in sorted(os.walk(root)):
        dn.sort()
        for f in sorted(fn):
            if f.endswith(exts):
                p = os.path.join(dp, f)
                h.update(p.encode())
                with open(p, "rb") as fh:
                    h.update(fh.read())


_repo_hash = None


def repo_hash():
    """hash of everything in the repository a build can depend on"""
    global _repo_hash
    if _repo_hash is None:
        h = hashlib.sha256()
        _hash_tree(h, os.path.join(REPO, "include"))
        _hash_tree(h, os.path.join(REPO, "development"))
        _repo_hash = h.hexdigest()
    return _repo_hash


def harness_hash():
    h = hashlib.sha256()
    _hash_tree(h, HARNESS)
    return h.hexdigest()


VARIANTS = {
    # name: (compiler, flags, header flavour)
    "plain":   ("g++",     ["-std=c++14", "-O1", "-g0", "-w"], "single"),
    "plain11": ("clang++", ["-std=c++11", "-O1", "-g0", "-w"], "single"),
    "dev":     ("g++",     ["-std=c++14", "-O1", "-g0", "-w"], "dev"),
    "asan":    ("clang++", ["-std=c++14", "-O1", "-g", "-w", "-fsanitize=address,undefined",
                            "-fno-sanitize-recover=all", "-fno-omit-frame-pointer"], "single"),
    "assert":  ("g++",     ["-std=c++14", "-O1", "-g0", "-w", "-DHFSM2_VERIF", "-DHFSM2_ENABLE_ASSERT"], "single"),
}


def build(fx, variant="plain", extra_defines=(), tag=""):
    """compile the executor for fixture fx; returns path of the binary. Raises on compile errors."""
    cc, flags, flavour = VARIANTS[variant]
    header = "hfsm2/machine.hpp" if flavour == "single" else "hfsm2/machine_dev.hpp"
    inc = os.path.join(REPO, "include") if flavour == "single" else os.path.join(REPO, "development")
    if variant == "assert" and gen.cfg_of(fx)["manual"]:
        # RV_<Manual>::loadEnter contains an assertion that does not compile (`planData.empty()`); the assertion build of
        # manually activated fixtures therefore leaves serialization out
        fx = dict(fx, config=dict(fx.get("config", {}), features=[f for f in gen.cfg_of(fx)["features"] if f != "SERIALIZATION"]))
    src = gen.cpp_source(fx, header=header, extra_defines=extra_defines)
    h = hashlib.sha256()
    h.update(repo_hash().encode()); h.update(harness_hash().encode()); h.update(src.encode())
    h.update(" ".join([cc] + flags).encode())
    key = h.hexdigest()[:20]
    d = os.path.join(CACHE, "bin")
    os.makedirs(d, exist_ok=True)
    exe = os.path.join(d, "%s-%s%s-%s" % (fx["name"], variant, tag, key))
    if os.path.exists(exe):
        return exe
    cpp = exe + ".cpp"
    with open(cpp, "w") as f:
        f.write(src)
    cmd = [cc] + flags + ["-I", inc, "-I", HARNESS, cpp, "-o", exe + ".tmp"]
    p = subprocess.run(cmd, stdout=subprocess.PIPE, stderr=subprocess.STDOUT, universal_newlines=True)
    if p.returncode != 0:
        errs = [l for l in p.stdout.splitlines() if "error" in l][:10]
        raise RuntimeError("compile failed (%s, %s):\n%s" % (fx["name"], variant, "\n".join(x[:400] for x in errs)))
    os.rename(exe + ".tmp", exe)
    return exe
