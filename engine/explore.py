"""Driving executors (random walks, exhaustive exploration) and validating their traces with TLC.

Orchestration only: what to run next is chosen here; every judgement about a recorded step is a TLA+
expression evaluated by TLC (spec/Trace.tla)."""
import json, os, random, re, subprocess, sys, time
from concurrent.futures import ThreadPoolExecutor
from fractions import Fraction
from . import gen, tlc
from .build import build

KINDS = ["change", "restart", "resume", "select", "utilize", "randomize"]
UPDATE_METHODS = ["preUpdate", "update", "postUpdate"]
REACT_METHODS = ["preReact", "react", "postReact"]


class Exec:
    """an interactive executor process"""

    def __init__(self, exe, trace_path=None, timeout=20):
        self.p = subprocess.Popen([exe], stdin=subprocess.PIPE, stdout=subprocess.PIPE, stderr=subprocess.PIPE,
                                  universal_newlines=True, bufsize=1)
        self.trace = open(trace_path, "w") if trace_path else None
        self.cmds = open(trace_path + ".cmds", "w") if trace_path else None
        self.records = 0
        self.dead = None

    def send(self, line):
        self.p.stdin.write(line + "\n")
        if self.cmds:
            self.cmds.write(line + "\n")

    def call(self, line):
        """send an API command, return the parsed record (None if the executor died)"""
        try:
            self.send(line)
            self.p.stdin.flush()
            out = self.p.stdout.readline()
        except BrokenPipeError:
            out = ""
        if not out:
            self.p.wait()
            self.dead = (self.p.returncode, self.p.stderr.read()[-4000:])
            return None
        if self.trace:
            self.trace.write(out)
        self.records += 1
        if self.cmds:
            self.cmds.write("#rec %d\n" % self.records)
        return json.loads(out)

    def close(self):
        try:
            self.p.stdin.close()
        except Exception:
            pass
        try:
            self.p.wait(timeout=10)
        except Exception:
            self.p.kill()
        if self.trace:
            self.trace.close()
        if self.cmds:
            self.cmds.close()
        return self.p.returncode


def mask_set(mask):
    return [i + 1 for i in range(32) if mask >> i & 1]


class Walker:
    """seeded random walk over the public API with scripted callbacks"""

    def __init__(self, fx, rnd, profile=None):
        self.fx = fx
        self.fl = gen.Flat(fx["shape"])
        self.cfg = gen.cfg_of(fx)
        self.rnd = rnd
        self.profile = dict(plans=True, utility=True, payload=self.cfg["payload"] != "void", hooks=2,
                            overflow=True, cancel=True, react=True, serial=True, fills=True, quiet=0.15,
                            logger=bool({"LOG_INTERFACE", "VERBOSE_DEBUG_LOG"} & set(self.cfg["features"])))
        self.stash = []          # saved buffers (lists of bytes), shared by all episodes of this walker
        self.profile.update(fx.get("profile", {}))
        self.profile.update(profile or {})
        fl = self.fl
        self.regions = [s for s in range(1, fl.n + 1) if fl.st(s)["kind"] != "S"]
        self.compo_heads = [s for s in range(1, fl.n + 1) if fl.st(s)["kind"] == "C"]
        self.users = [s for s in range(1, fl.n + 1) if fl.st(s)["headed"]]
        self.kinds = [k for k in KINDS if self.profile["utility"] or k not in ("utilize", "randomize")]

    # ---- pieces ------------------------------------------------------------
    def payload(self):
        return self.rnd.choice([0, 0, 1, 2, 3]) if self.profile["payload"] else 0

    def dest(self):
        return self.rnd.randint(1, self.fl.n)

    def req_op(self, allow_schedule=True, at=None):
        k = self.rnd.choice(self.kinds + (["schedule"] if allow_schedule else []))
        d = self.dest()
        if at and self.rnd.random() < 0.25:
            # the head of a region the acting state sits in (boundary between inner and outer transitions)
            heads = [a for a in [at] + self.fl.ancestors(at) if self.fl.st(a)["kind"] != "S"]
            if heads:
                d = self.rnd.choice(heads)
                if self.rnd.random() < 0.5:
                    k = "change"
        if k == "schedule" and d == 1:
            d = 2           # scheduling the root is meaningless (the registries assert a parent fork)
        return "req:%s:%d:%d" % (k, d, self.payload())

    def plan_op(self):
        r = self.rnd.randint(1, self.fl.rc)
        c = self.rnd.random()
        if c < 0.7:
            head = self.fl.region_head(r)
            inside = self.fl.subtree(head)
            o = self.rnd.choice(inside[1:] or inside)
            last = getattr(self, "_last_origin", None)
            if last and last[0] == r and self.rnd.random() < self.profile.get("sameorigin", 0.3):
                o = last[1]                         # several tasks from one origin
            self._last_origin = (r, o)
            d = self.rnd.choice(inside if self.rnd.random() < 0.8 else list(range(1, self.fl.n + 1)))
            if self.rnd.random() < self.profile.get("cyclic", 0.15):
                d = o                               # a cyclic task (self-link)
            k = self.rnd.choice(self.kinds + ["schedule"])
            return "plan_append:%d:%d:%d:%s:%d" % (r, o, d, k, self.payload())
        if c < 0.80:
            return "plan_clear:%d" % r
        if c < 0.90:
            return "plan_sweep:%d:%d" % (r, self.rnd.choice([0, 1, 2, 3, 5, 6, 7, self.rnd.randint(0, 63)]))
        return "plan_remove:%d:%d" % (r, self.rnd.randint(1, 3))

    def rets(self):
        """select / rank / utility values and generator outputs for one call (within the documented preconditions)"""
        fl, rnd, out = self.fl, self.rnd, []
        util = {}
        rank = {}
        for s in range(1, fl.n + 1):
            st = fl.st(s)
            if st["kind"] != "S" and st["headed"] and rnd.random() < 0.7:
                out.append("sel %d %d" % (s, rnd.randint(1, st["width"])))
            if not self.profile["utility"]:
                continue
            rank[s] = rnd.choice([0, 0, 0, 1, 2]) if st["headed"] else 0
            uvals = ([Fraction(1, 10), Fraction(2, 10), Fraction(3, 10), Fraction(7, 10), Fraction(1, 3), Fraction(1, 7), Fraction(11, 10)]
                     if self.profile.get("floaty") else [Fraction(1, 2), Fraction(1), Fraction(2), Fraction(3), Fraction(1, 3)])
            util[s] = rnd.choice(uvals) if st["headed"] else Fraction(1)
            par = fl.st(st["parent"]) if st["parent"] else None
            if st["headed"] and st["kind"] == "S" and par and par["strat"] in ("Utilitarian", "Random") and rnd.random() < 0.2:
                util[s] = Fraction(0)
        if self.profile["utility"]:
            for s in range(1, fl.n + 1):
                st = fl.st(s)
                if st["strat"] in ("Utilitarian", "Random"):
                    kids = st["kids"]
                    top = max(rank[k] for k in kids)
                    tops = [k for k in kids if rank[k] == top]
                    if all(fl.st(k)["kind"] == "S" and util[k] == 0 for k in tops):
                        k0 = tops[0]
                        if fl.st(k0)["headed"]:
                            util[k0] = Fraction(1)
                        else:
                            pass        # anonymous heads report utility 1 anyway
            for s in range(1, fl.n + 1):
                if fl.st(s)["headed"]:
                    if rank[s]:
                        out.append("rank %d %d" % (s, rank[s]))
                    if util[s] != 1:
                        out.append("util %d %d %d" % (s, util[s].numerator, util[s].denominator))
            n = rnd.randint(0, 4)
            if n:
                rvals = [Fraction(0), Fraction(1, 4), Fraction(1, 2), Fraction(3, 4), Fraction(99, 100), Fraction(1, 3), Fraction(2, 3), Fraction(1, 7)]
                if self.profile.get("floaty"):
                    # generator outputs adjacent to 1 and to interval boundaries (floats: 24-bit mantissa)
                    rvals = [Fraction(16777215, 16777216), Fraction(16777214, 16777216), Fraction(16777215, 16777216), Fraction(1, 16777216),
                             Fraction(0), Fraction(1, 3), Fraction(1, 2), Fraction(8388609, 16777216), Fraction(5592405, 16777216)]
                vals = [rnd.choice(rvals) for _ in range(n)]
                out.append("rng " + " ".join("%d %d" % (v.numerator, v.denominator) for v in vals))
        return out

    def hooks(self, call, active, qlen, first_activation=False):
        """script hooks for one call; `active` = 1-based ids active before the call"""
        rnd, fl = self.rnd, self.fl
        out = []
        n = rnd.choice([0, 0, 1, 1, 2, self.profile["hooks"]])
        budget = max(0, fl.cc - qlen - 1) if not self.profile["overflow"] else 99
        for _ in range(n):
            ops = []
            c = rnd.random()
            if call in ("update", "react"):
                methods = UPDATE_METHODS if call == "update" else REACT_METHODS
                if c < 0.55:
                    me = rnd.choice(methods)
                    s = rnd.choice([a for a in active if a in self.users] or self.users)
                elif c < 0.8:
                    me = rnd.choice(["entryGuard", "exitGuard"])
                    s = rnd.choice(self.users)
                elif c < 0.9:
                    me = rnd.choice(["enter", "exit", "reenter"])
                    s = rnd.choice(self.users)
                else:
                    me = rnd.choice(["planSucceeded", "planFailed"])
                    s = rnd.choice([r for r in self.regions if r in self.users] or self.users)
            elif call == "query":
                me, s = "query", rnd.choice([a for a in active if a in self.users] or self.users)
            else:       # imm / enter / reset ...
                if c < 0.7:
                    me = rnd.choice(["entryGuard", "exitGuard"])
                else:
                    me = rnd.choice(["enter", "exit", "reenter"])
                s = rnd.choice(self.users)
            if s in self.cfg["inj"] and rnd.random() < 0.3:
                me = "i_" + me
            if str(s) in self.cfg["overrides"] and me not in self.cfg["overrides"][str(s)]:
                continue        # the state does not define this method: nothing to hook
            base = me[2:] if me.startswith("i_") else me
            nops = rnd.choice([1, 1, 1, 2])
            for _ in range(nops):
                c = rnd.random()
                if base in ("enter", "exit", "reenter"):
                    if self.profile["plans"]:
                        ops.append(self.plan_op())
                elif base == "query":
                    ops.append("consume")
                elif base in ("entryGuard", "exitGuard"):
                    if c < 0.4 and self.profile["cancel"] and not first_activation:
                        ops.append("cancel")
                    elif c < 0.8 and budget > 0:
                        ops.append(self.req_op(at=s)); budget -= 1
                    elif self.profile["plans"]:
                        ops.append(rnd.choice(["succeed:%d" % s, "fail:%d" % s, self.plan_op()]) if base == "exitGuard" else self.plan_op())
                else:
                    if c < 0.45 and budget > 0:
                        ops.append(self.req_op(at=s)); budget -= 1
                    elif c < 0.75 and self.profile["plans"]:
                        # marks are only put on states that are active (S_::deepEnter asserts that an entered state has none)
                        t = s if (rnd.random() < 0.7 or not active) else rnd.choice([a for a in active if a != 1] or [s])
                        ops.append(rnd.choice(["succeed:%d", "succeed:%d", "fail:%d"]) % t)
                    elif c < 0.85 and base in REACT_METHODS:
                        ops.append("consume")
                    elif self.profile["plans"]:
                        ops.append(self.plan_op())
            if ops:
                out.append("hook %d %s %d %s" % (s, me, rnd.choice([1, 1, 1, 2]), " ".join(ops)))
        return out

    # ---- the walk ------------------------------------------------------------
    def episode(self, ex, steps, keep=False):
        """one instance from construction to destruction; returns number of records or None if the executor died"""
        rnd, fl, cfg = self.rnd, self.fl, self.cfg
        manual = cfg["manual"]
        n = 0

        def call(lines, cmd):
            nonlocal n
            for ln in lines:
                ex.send(ln)
            r = ex.call(cmd)
            n += 1
            return r

        quiet = (not keep) and rnd.random() < self.profile["quiet"]
        serial_was = self.profile["serial"]
        if quiet:
            ex.send("quiet 1")
            self.profile["serial"] = False
        pre = [] if manual else self.rets() + self.hooks("enter", [], 0, first_activation=True)
        if self.profile["fills"]:
            pre = ["fill %d" % rnd.choice([0, 255, 165, 1])] + pre
        rec = call(pre, "new 1" if self.profile["logger"] and (self.profile["logger"] == "always" or rnd.random() < 0.6) else "new")
        if rec is None:
            return None
        while n < steps:
            post = rec["post"]
            on = post["on"]
            active = mask_set(post["isA"])
            qlen = len(post["q"])
            if not on:
                if rnd.random() < 0.1 and n > 1 and not keep:
                    break
                if self.profile["serial"] and self.stash and rnd.random() < 0.25:
                    rec = call(self.rets(), "load " + " ".join(map(str, rnd.choice(self.stash))))
                else:
                    rec = call(self.rets() + self.hooks("enter", [], 0, first_activation=True), "enter")
            else:
                c = rnd.random()
                room = qlen < fl.cc or self.profile["overflow"]
                if self.profile["plans"] and rnd.random() < self.profile.get("planheavy", 0.0):
                    c = 0.90        # a plan edit from outside
                if self.profile["logger"] and self.profile["logger"] != "always" and rnd.random() < 0.04:
                    rec = call([], "logger %d" % (0 if post.get("lg") else 1))
                    if rec is None:
                        return None
                    continue
                if self.profile["serial"] and c < 0.05:
                    rec = call([], "save")
                    if rec and rec["buf"] not in self.stash:
                        self.stash.append(rec["buf"])
                        if len(self.stash) > 40:
                            self.stash.pop(rnd.randrange(len(self.stash)))
                elif self.profile["serial"] and c < 0.10 and self.stash:
                    rec = call(self.rets() + self.hooks("exit", active, qlen), "load " + " ".join(map(str, rnd.choice(self.stash))))
                elif c < 0.30:
                    rec = call(self.rets() + self.hooks("update", active, qlen), "update")
                elif c < 0.40 and self.profile["react"]:
                    rec = call(self.rets() + self.hooks("react", active, qlen), "react")
                elif c < 0.45:
                    rec = call(self.hooks("query", active, qlen), "query")
                elif c < 0.65 and room:
                    rec = call(self.rets() + self.hooks("imm", active, qlen),
                               "imm %s %d %d" % (rnd.choice(self.kinds), self.dest(), self.payload()))
                elif c < 0.78 and room:
                    qk = rnd.choice(self.kinds + ["schedule"])
                    rec = call([], "queue %s %d %d" % (qk, max(2, self.dest()) if qk == "schedule" else self.dest(), self.payload()))
                elif c < 0.86 and self.profile["plans"]:
                    # R_::succeed()/fail() CHECK `ROOT_ID < stateId`: the root cannot succeed, so it is never addressed from outside
                    t = rnd.choice([a for a in active if a != 1] or [2])
                    rec = call([], "%s %d" % (rnd.choice(["succeed", "succeed", "fail"]), t))
                elif c < 0.94 and self.profile["plans"]:
                    op = self.plan_op().split(":")
                    rec = call([], {"plan_append": "pa", "plan_clear": "pc", "plan_remove": "pr", "plan_sweep": "ps"}[op[0]] + " " + " ".join(op[1:]))
                elif c < 0.97:
                    rec = call(self.rets() + self.hooks("reset", active, qlen), "reset")
                elif manual:
                    rec = call(self.hooks("exit", active, qlen), "exit")
                else:
                    rec = call(self.rets() + self.hooks("update", active, qlen), "update")
            if rec is None:
                return None
        if keep:
            return n
        rec = call([], "del")
        if quiet:
            ex.send("quiet 0")
            self.profile["serial"] = serial_was
        return None if rec is None else n

    def episode_prefix(self, ex, steps):
        """like episode(), but leaves the (activated) instance alive"""
        return self.episode(ex, steps, keep=True)


def random_walks(fx, exe, out_path, seed, records, episode_len=60, profile=None):
    """run random episodes until `records` records are written to out_path; returns (records, crash or None)"""
    rnd = random.Random(seed)
    w = Walker(fx, rnd, profile)
    ex = Exec(exe, out_path)
    total = 0
    crash = None
    while total < records:
        n = w.episode(ex, rnd.randint(5, episode_len))
        if n is None:
            crash = ex.dead
            break
        total += n
    ex.close()
    return ex.records, crash


def plan_scenarios(fx, exe, out_path, payloads=(0,)):
    """scripted plan situations that random walks reach rarely: for every composite region with two plain sub-states A, B
    a plan [A->A (cyclic), A->B] (and [A->B, A->A]) whose origin succeeds, then fails; several tasks per origin;
    tasks whose origin is inactive ahead of active ones.  Returns (records, crash or None)"""
    fl = gen.Flat(fx["shape"])
    cfg = gen.cfg_of(fx)
    ex = Exec(exe, out_path)
    crash = None

    def run(cmds):
        nonlocal crash
        for c in cmds:
            first = c.split()[0]
            if first in ("hook", "sel", "rank", "util", "rng"):
                ex.send(c)
            elif ex.call(c) is None:
                crash = ex.dead
                return False
        return True
    start = ["new"] + (["enter"] if cfg["manual"] else [])
    for h in range(1, fl.n + 1):
        st = fl.st(h)
        if st["kind"] != "C":
            continue
        leaves = [k for k in st["kids"] if fl.st(k)["kind"] == "S"]
        if len(leaves) < 2:
            continue
        a, b = leaves[0], leaves[1]
        r = st["region"]
        for p in payloads:
            for kind in ("change", "restart"):
                for order in (0, 1):
                    tasks = ["pa %d %d %d %s %d" % (r, a, a, kind, p), "pa %d %d %d %s %d" % (r, a, b, kind, p)]
                    if order:
                        tasks.reverse()
                    seq = start + ["imm change %d 0" % a] + tasks + ["hook %d update 1 succeed:%d" % (a, a), "update", "update",
                                                                     "hook %d update 1 succeed:%d" % (a, a), "update", "update"]
                    seq += ["pa %d %d %d change %d" % (r, b, a, p), "pa %d %d %d change %d" % (r, a, b, p),
                            "hook %d postUpdate 1 succeed:%d" % (a, a), "update", "hook %d update 1 fail:%d" % (b, b), "update", "update", "del"]
                    if not run(seq):
                        ex.close()
                        return ex.records, crash
    # storage scenarios (C07): plans of 3 and 4 tasks (another region's tasks interleaved in the pool) with the last, the
    # first and a middle task removed, each followed by an append to the same plan (the tail / head links must be the
    # survivor's), then cleared and the pool filled to capacity and beyond (every slot must have come back)
    regions = []
    for h in range(1, fl.n + 1):
        st = fl.st(h)
        inside = fl.subtree(h)
        if st["kind"] != "S" and len(inside) >= 3:
            regions.append((st["region"], inside[1], inside[2]))
    for idx, (r, a, b) in enumerate(regions[:3]):
        other = regions[(idx + 1) % len(regions)] if len(regions) > 1 else None
        for n in (3, 4):
            seq = list(start)
            for i in range(n):
                seq.append("pa %d %d %d %s 0" % (r, a if i % 2 == 0 else b, b if i % 2 == 0 else a, ("change", "restart", "resume")[i % 3]))
                if other and i == 0:
                    seq.append("pa %d %d %d change 0" % (other[0], other[1], other[2]))
            for pos in (n, 1, 2):
                seq += ["pr %d %d" % (r, pos), "pa %d %d %d schedule 0" % (r, b, a), "ps %d 0" % r]
            seq += ["pr %d %d" % (r, n), "pr %d %d" % (r, n - 1), "pa %d %d %d change 0" % (r, a, a), "pc %d" % r]
            seq += ["pa %d %d %d change 0" % (r, a, b)] * min(cfg["taskcap"] + 1, 20)      # (sweep masks are 32-bit: plans stay short)
            seq += ["ps %d 5" % r, "pa %d %d %d change 0" % (r, b, b), "pc %d" % r, "del"]
            if not run(seq):
                ex.close()
                return ex.records, crash
    ex.close()
    return ex.records, crash


def resume_scenarios(fx, exe, out_path):
    """scripted resume situations: for every composite region R that is not the root and every region K nested in it,
    activate a non-initial sub-state deep inside K, leave R, and come back with an external hook-free `resume R`
    (and `resume K`): what isResumable named must be what gets activated (Trace!ResumeAgrees judges it).
    Returns (records, crash or None)"""
    fl = gen.Flat(fx["shape"])
    cfg = gen.cfg_of(fx)
    ex = Exec(exe, out_path)
    start = ["new"] + (["enter"] if cfg["manual"] else [])
    for r in range(2, fl.n + 1):
        if fl.st(r)["kind"] != "C":
            continue
        inside = fl.subtree(r)
        outside = [s for s in range(2, fl.n + 1) if s not in inside and r not in fl.subtree(s) and fl.st(s)["kind"] == "S"]
        # a way out: a plain state that is neither inside R nor an ancestor of it, under a composite ancestor of R
        outside = [s for s in outside if any(fl.st(a)["kind"] == "C" and fl.st(a)["kids"] and (s in fl.subtree(a)) for a in fl.ancestors(r))]
        if not outside:
            continue
        deep = [s for s in inside if fl.st(s)["kind"] == "S" and fl.st(s)["prong"] > 1 and fl.st(s)["parent"] != r
                and fl.st(fl.st(s)["parent"])["kind"] == "C"]
        for d in deep[:4]:
            k = fl.st(d)["parent"]
            for back in (r, k):
                seq = start + ["imm change %d 0" % d, "imm change %d 0" % outside[0], "imm resume %d 0" % back, "del"]
                for c in seq:
                    if ex.call(c) is None:
                        crash = ex.dead
                        ex.close()
                        return ex.records, crash
    ex.close()
    return ex.records, None


# ------------------------------------------------------------------------------------------
# TLC trace validation

TR_CFG = """CONSTANTS Shape <- ShapeDef
          Cfg <- CfgDef
          Dev <- DevDef
SPECIFICATION TraceSpec
INVARIANT Done
CHECK_DEADLOCK FALSE
"""


def stage_trace_module(d, fx, dev=()):
    tlc.stage_spec(d)
    name = "TR_" + re.sub(r"\W", "_", fx["name"])
    with open(os.path.join(d, name + ".tla"), "w") as f:
        f.write("---- MODULE %s ----\nEXTENDS Trace\n%sDevDef == {%s}\n====\n"
                % (name, gen.tla_defs(fx), ",".join('"%s"' % x for x in dev)))
    with open(os.path.join(d, name + ".cfg"), "w") as f:
        f.write(TR_CFG)
    return name


MISMATCH_RE = re.compile(r'^<<\s*"MISMATCH"')


def parse_tlc_tuples(out):
    """TLC pretty-prints long tuples over several lines; glue them back together"""
    items, cur, depth = [], "", 0
    for line in out.splitlines():
        if not cur and not line.startswith("<<"):
            continue
        cur += line.strip() + " "
        depth += line.count("<<") - line.count(">>")
        if depth <= 0:
            items.append(cur.strip())
            cur, depth = "", 0
    return items


def split_top(s):
    """split the inside of a TLA+ tuple at top-level commas"""
    out, cur, depth, instr = [], "", 0, False
    i = 0
    while i < len(s):
        ch = s[i]
        if ch == '"':
            instr = not instr
        if not instr:
            if s.startswith("<<", i) or ch in "([{":
                depth += 1
                if s.startswith("<<", i):
                    cur += "<<"; i += 2; continue
            elif s.startswith(">>", i) or ch in ")]}":
                depth -= 1
                if s.startswith(">>", i):
                    cur += ">>"; i += 2; continue
            elif ch == "," and depth == 0:
                out.append(cur.strip()); cur = ""; i += 1; continue
        cur += ch
        i += 1
    if cur.strip():
        out.append(cur.strip())
    return out


def validate_chunk(d, module, trace_file, timeout=1200):
    rc, out, secs = tlc.run_tlc(d, module, module + ".cfg", env={"TRACE": trace_file}, workers=1, timeout=timeout,
                                 tag="-" + os.path.basename(trace_file))
    diffs, notes, checked = [], [], 0
    for it in parse_tlc_tuples(out):
        body = it.strip()
        if not (body.startswith("<<") and body.endswith(">>")):
            continue
        parts = split_top(body[2:-2])
        if not parts:
            continue
        head = parts[0].strip()
        if head == '"DIFF"':
            diffs.append(dict(l=int(parts[1]), tag=json.loads(parts[2]), detail=parts[3:]))
        elif head == '"NOTE"':
            notes.append((int(parts[1]), parts[2].strip().strip('"{}').replace('"', "")))
        elif head == '"CHECKED"':
            checked = int(parts[1])
    err = None
    if checked == 0:
        err = out[-3000:]
    return dict(file=trace_file, diffs=diffs, notes=notes, checked=checked, error=err, secs=secs, rc=rc)


def validate(fx, trace_files, dev=(), jobs=8):
    """validate trace files (each self-contained: instances start with `new`) in parallel"""
    d = tlc.scratch("tr-" + fx["name"])
    module = stage_trace_module(d, fx, dev)
    results = []
    with ThreadPoolExecutor(max_workers=jobs) as pool:
        futs = []
        for i, tf in enumerate(trace_files):
            # each TLC process needs its own module copy name-space only for metadir; module files are shared read-only
            futs.append(pool.submit(validate_chunk, d, module, os.path.abspath(tf)))
        for f in futs:
            results.append(f.result())
    return d, results


def replay_prefix(trace_file, l):
    """command lines that reproduce record l of a trace (from the `new` of its episode)"""
    lines = open(trace_file + ".cmds").read().splitlines()
    out, start, mark = [], 0, 0
    for ln in lines:
        if ln.startswith("#rec "):
            if int(ln[5:]) == l:
                break
            mark = len(out)
            continue
        if ln == "new" or ln.startswith("new "):
            start = mark            # script lines sent ahead of `new` belong to it
        out.append(ln)
    return out[start:]


def replica_walk(fx, exe, out_path, seed, records, profile=None):
    """authority in slot 0, replica in slot 1 fed with previousTransitions() after every step (C09);
    whenever the two drift apart in active/resumable prongs the replica is re-synchronised by save/load"""
    rnd = random.Random(seed)
    prof = dict(plans=False, serial=False, hooks=1)
    prof.update(profile or {})
    w = Walker(fx, rnd, prof)
    ex = Exec(exe, out_path)
    manual = w.cfg["manual"]

    def on_slot(i, lines, cmd):
        ex.send("slot %d" % i)
        for ln in lines:
            ex.send(ln)
        return ex.call(cmd)

    total = 0
    while total < records:
        a = on_slot(0, [], "new")
        b = on_slot(1, [], "new")
        if a is None or b is None:
            break
        if manual:
            a = on_slot(0, [], "enter")
            b = on_slot(1, [], "enter")
        total += 4
        for _ in range(rnd.randint(10, 60)):
            if a is None or b is None:
                break
            post = a["post"]
            active = mask_set(post["isA"])
            qlen = len(post["q"])
            rets = w.rets()
            # same value for every draw, so that replay (which draws differently) resolves alike
            rets = [r for r in rets if not r.startswith("rng ")]
            if w.profile["utility"]:
                v = rnd.choice(["0 1", "1 2", "3 4", "1 3"])
                rets.append("rng " + " ".join([v] * 400))
            c = rnd.random()
            if c < 0.35:
                a = on_slot(0, rets + w.hooks("update", active, qlen), "update")
            elif c < 0.75 and qlen < w.fl.cc:
                a = on_slot(0, rets + w.hooks("imm", active, qlen), "imm %s %d %d" % (rnd.choice(w.kinds), w.dest(), w.payload()))
            elif qlen < w.fl.cc:
                qk = rnd.choice(w.kinds + ["schedule"])
                a = on_slot(0, [], "queue %s %d %d" % (qk, max(2, w.dest()) if qk == "schedule" else w.dest(), w.payload()))
            else:
                a = on_slot(0, rets, "update")
            total += 1
            if a is None:
                break
            prev = a["post"]["prev"]
            if a["a"][0] in ("update", "imm") and prev:
                if rnd.random() < 0.12:
                    # an over-long history (the authority's list, its last entry repeated beyond COMPO_COUNT * SUBSTITUTION_LIMIT entries):
                    # what does not fit must be dropped, nothing may be written past previousTransitions
                    cap = w.fl.cc * w.cfg["limit"]
                    prev = prev + [prev[-1]] * max(0, min(60, cap + 1 + rnd.randint(0, 3)) - len(prev))      # (repeating the last one changes nothing)
                flat = " ".join("%d %d %s %d" % (t[0], t[1], t[2], t[3]) for t in prev)
                b = on_slot(1, rets, "replay 0 %d %s" % (len(prev), flat))
                total += 1
                if b is None:
                    break
            if b["post"]["act"] != a["post"]["act"] or b["post"]["res"] != a["post"]["res"]:
                s = on_slot(0, [], "save")
                if s is None:
                    a = None
                    break
                b = on_slot(1, [], "load " + " ".join(map(str, s["buf"])))
                total += 2
        if a is None or b is None:
            break
        on_slot(0, [], "del")
        on_slot(1, [], "del")
        total += 2
    crash = ex.dead
    ex.close()
    return ex.records, crash


def copy_walk(fx, exe, out_path, seed, records, profile=None):
    """an instance is copied at a random point; original and copy are then driven identically (C10)"""
    rnd = random.Random(seed)
    prof = dict(fills=True)
    prof.update(profile or {})
    w = Walker(fx, rnd, prof)
    ex = Exec(exe, out_path)
    manual = w.cfg["manual"]
    total = 0

    def on_slot(i, lines, cmd):
        ex.send("slot %d" % i)
        for ln in lines:
            ex.send(ln)
        return ex.call(cmd)

    while total < records and not ex.dead:
        ex.send("slot 0")
        n = w.episode_prefix(ex, rnd.randint(3, 25)) if hasattr(w, "episode_prefix") else None
        if n is None:
            break
        total += n
        ex.send("fill %d" % rnd.choice([0, 255, 165]))
        c = on_slot(1, [], "copy 0")
        total += 1
        if c is None:
            break
        for _ in range(rnd.randint(3, 15)):
            post = c["post"]
            if not post["on"]:
                break
            active = mask_set(post["isA"])
            qlen = len(post["q"])
            lines = w.rets() + w.hooks("update", active, qlen)
            cmd = rnd.choice(["update", "react", "imm %s %d %d" % (rnd.choice(w.kinds), w.dest(), w.payload()), "reset"])
            if cmd.startswith("imm") and qlen >= w.fl.cc:
                cmd = "update"
            a = on_slot(0, lines, cmd)
            c = on_slot(1, lines, cmd)
            total += 2
            if a is None or c is None:
                break
        if ex.dead:
            break
        on_slot(1, [], "del")
        on_slot(0, [], "del")
        total += 2
    crash = ex.dead
    ex.close()
    return ex.records, crash


HOOKABLE = {"entryGuard", "exitGuard", "preUpdate", "update", "postUpdate", "preReact", "react", "postReact", "query",
            "enter", "exit", "reenter", "planSucceeded", "planFailed"}


def ops_for(walker, me, tier):
    """small op menu per callback kind for the systematic exploration"""
    base = me[2:] if me.startswith("i_") else me
    fl = walker.fl
    leaves = [s for s in range(2, fl.n + 1) if fl.st(s)["kind"] == "S"]
    regions = [s for s in range(2, fl.n + 1) if fl.st(s)["kind"] != "S"]
    dests = sorted(set([leaves[0], leaves[-1]] + regions[:1] + ([leaves[len(leaves) // 2]] if tier == "thorough" else [])))
    kinds = ["change", "restart"] if tier == "quick" else ["change", "restart", "resume", "select"]
    reqs = ["req:%s:%d:%d" % (k, d, 1 if walker.profile["payload"] and i % 2 else 0) for i, (k, d) in enumerate((k, d) for k in kinds for d in dests)]
    if base in ("entryGuard", "exitGuard"):
        return ["cancel"] + reqs + ["req:schedule:%d:0" % leaves[-1]]
    if base in ("preUpdate", "update", "postUpdate"):
        return reqs + (["succeed:SELF", "fail:SELF"] if walker.profile["plans"] else [])
    if base in ("preReact", "react", "postReact"):
        return ["consume"] + reqs[:2]
    if base == "query":
        return ["consume"]
    if base in ("planSucceeded", "planFailed"):
        return reqs[:1] + ["succeed:SELF"]
    if base in ("enter", "exit", "reenter") and walker.profile["plans"]:
        r = fl.st(regions[0])["region"] if regions else 1
        head = fl.region_head(r)
        inside = fl.subtree(head)
        return ["plan_append:%d:%d:%d:change:0" % (r, inside[1] if len(inside) > 1 else inside[0], inside[-1])]
    return []


def exhaustive_walk(fx, exe, out_dir, tier, max_states, seed=1, profile=None, parts=4):
    """systematic exploration driven by what the implementation does: breadth-first over observed persistent states;
    in every state every base call of the menu, and for every callback that call really invokes, every op of a small
    menu scripted into that callback (so every scripted hook fires).  Variants run on a copy of the base instance.
    The variants of one base state are spread over `parts` trace files (validated in parallel)."""
    rnd = random.Random(seed)
    w = Walker(fx, rnd, profile)
    fl, manual = w.fl, w.cfg["manual"]
    files, total, crash = [], 0, None

    def key(post):
        return json.dumps([post["act"], post["res"], post["q"], post["plans"], post["succ"], post["fail"]])

    def labels(post):
        ls = ["update", "react", "query", "reset"]
        kinds = w.kinds if tier == "thorough" else [k for k in w.kinds if k in ("change", "restart", "resume", "utilize")]
        if len(post["q"]) < fl.cc:
            for k in kinds:
                for d in range(1, fl.n + 1):
                    ls.append("imm %s %d 0" % (k, d))
        return ls

    seen, frontier = {}, []
    frontier.append(["new", "enter"] if manual else ["new"])
    si = 0
    while frontier and si < max_states and crash is None:
        path = frontier.pop(0)
        base_post = None
        for part in range(parts):
            f = os.path.join(out_dir, "%s-exh-%d-%d.ndjson" % (fx["name"], si, part))
            ex = Exec(exe, f)
            ex.send("slot 0")
            rec = None
            for cmd in path:
                if cmd.startswith(("hook", "sel", "rank", "util", "rng")):
                    ex.send(cmd)
                else:
                    rec = ex.call(cmd)
            if rec is None or ex.dead:
                crash = ex.dead
                ex.close()
                files.append(f)
                break
            if part == 0:
                k0 = key(rec["post"])
                if k0 in seen:
                    ex.close()
                    for g in (f, f + ".cmds"):
                        try:
                            os.remove(g)
                        except OSError:
                            pass
                    base_post = None
                    break
                seen[k0] = path
                base_post = rec["post"]

            def variant(lines, cmd):
                ex.send("slot 1")
                c = ex.call("copy 0")
                if c is None:
                    return None
                for ln in lines:
                    ex.send(ln)
                r = ex.call(cmd)
                if r is None:
                    return None
                ex.call("del")
                ex.send("slot 0")
                return r

            labs = labels(base_post)
            for li, lab in enumerate(labs):
                if li % parts != part:
                    continue
                r0 = variant([], lab)
                if r0 is None:
                    break
                if key(r0["post"]) not in seen and r0["post"]["on"] and len(frontier) < 4 * max_states:
                    frontier.append(path + [lab])
                fired = []
                for e in r0["ev"]:
                    if (e[0], e[1]) not in fired and (e[1][2:] if e[1].startswith("i_") else e[1]) in HOOKABLE:
                        fired.append((e[0], e[1]))
                for (s, me) in fired:
                    for op in ops_for(w, me, tier):
                        hook = "hook %d %s 1 %s" % (s, me, op.replace("SELF", str(s)))
                        r = variant([hook], lab)
                        if r is None:
                            break
                        if key(r["post"]) not in seen and r["post"]["on"] and len(frontier) < 4 * max_states:
                            frontier.append(path + [hook, lab])
                    if ex.dead:
                        break
                if ex.dead:
                    break
            if ex.dead:
                crash = ex.dead
            else:
                ex.call("del")
            ex.close()
            total += ex.records
            files.append(f)
            if crash:
                break
        if base_post is not None:
            si += 1
    return files, total, crash
