"""C20: bundled generators against the published algorithms (spec/Prng.tla evaluated by TLC as reference)."""
import json, os, random, re, shutil, subprocess
from . import tlc, build

ANCHORS = r'''
\* published reference values that pin the primitives of this module independently of the library:
\* splitmix64 from seed 0 (Vigna's reference implementation) and the first xoshiro256** output for state {1,2,3,4}
ASSUME SplitMix64(Zero(64))[2] = OfLimbs(<<%s>>)
ASSUME SplitMix64(SplitMix64(Zero(64))[1])[2] = OfLimbs(<<%s>>)
ASSUME StarStar(64, <<SmallConst(64, 1), SmallConst(64, 2), SmallConst(64, 3), SmallConst(64, 4)>>)[2] = SmallConst(64, 11520)
ASSUME Plus(64, <<SmallConst(64, 1), SmallConst(64, 2), SmallConst(64, 3), SmallConst(64, 4)>>)[2] = SmallConst(64, 5)
ASSUME Rotl(SmallConst(32, 1), 11) = SmallConst(32, 2048)
''' % (", ".join(str((0xe220a8397b1dcdaf >> (16 * i)) & 0xFFFF) for i in range(4)),
       ", ".join(str((0x6e789e6aa1b965f4 >> (16 * i)) & 0xFFFF) for i in range(4)))


def build_harness():
    d = os.path.join(tlc.CACHE, "bin")
    os.makedirs(d, exist_ok=True)
    exe = os.path.join(d, "prng-%s" % (build.repo_hash()[:12] + build.harness_hash()[:8]))
    if not os.path.exists(exe):
        p = subprocess.run(["g++", "-std=c++14", "-O1", "-w", "-I", os.path.join(build.REPO, "include"),
                            os.path.join(build.HARNESS, "components", "prng_main.cpp"), "-o", exe],
                           stdout=subprocess.PIPE, stderr=subprocess.STDOUT, universal_newlines=True)
        if p.returncode:
            raise RuntimeError("prng harness compile failed: " + "\n".join(l for l in p.stdout.splitlines() if "error" in l)[:1500])
    return exe


def run(tier, seed):
    rnd = random.Random(seed)
    seeds64 = [0, 1, 2 ** 32 - 1, 2 ** 64 - 1] + [rnd.getrandbits(64) for _ in range(2 if tier == "quick" else 20)]
    seeds32 = [0, 1, 2 ** 32 - 1] + [rnd.getrandbits(32) for _ in range(2 if tier == "quick" else 20)]
    n, m = (12, 4) if tier == "quick" else (64, 8)
    cmds = []
    for kind in ("plus", "starstar"):
        cmds += ["%s 64 %d %d %d" % (kind, s, n, m) for s in seeds64]
        cmds += ["%s 32 %d %d %d" % (kind, s, n, m) for s in seeds32]
    exe = build_harness()
    p = subprocess.run([exe], input="\n".join(cmds) + "\n", stdout=subprocess.PIPE, universal_newlines=True)
    recs = [json.loads(l) for l in p.stdout.splitlines()]
    d = tlc.scratch("c20")
    tlc.stage_spec(d)
    tf = os.path.join(d, "prng.ndjson")
    open(tf, "w").write(p.stdout)
    # jump() costs 4*w generator steps in the reference: check it for a subset
    anchors = ANCHORS
    k = [0]
    def num(m):
        k[0] += 1
        return "A%d == " % k[0]
    import re as _re
    anchors = _re.sub(r"ASSUME ", num, anchors)
    body = ("EXTENDS Prng, IOUtils\nT == ndJsonDeserialize(IOEnv.TRACE)\n" + anchors +
            "Spec == WalkInit(T) /\\ [][WalkStep(T)]_pvars\n")
    open(os.path.join(d, "MPRNG.tla"), "w").write("---- MODULE MPRNG ----\n" + body + "====\n")
    open(os.path.join(d, "MPRNG.cfg"), "w").write("SPECIFICATION Spec\nCHECK_DEADLOCK FALSE\n" + "".join("INVARIANT A%d\n" % j for j in range(1, k[0] + 1)))
    rc, out, secs = tlc.run_tlc(d, "MPRNG", "MPRNG.cfg", env={"TRACE": tf}, workers=1, timeout=3000, heap="8g")
    oks = tlc.printed(out, "OK")
    diffs = tlc.printed(out, "DIFF")
    failed_assume = bool(re.search(r"Invariant A\d is violated", out))
    shutil.rmtree(d, ignore_errors=True)
    # float facts reported by the harness itself (range, exactness of the conversion)
    range_bad = [r for r in recs if not r["inRange"]]
    conv_bad = [r for r in recs if any(r["f32"][2 * i] != r["f32"][2 * i + 1] for i in range(len(r["f32"]) // 2)) or any(x != 1 for x in r["f64ok"])]
    return dict(records=recs, checked=len(oks), diffs=diffs, assume_failed=failed_assume, range_bad=range_bad, conv_bad=conv_bad,
                outputs=sum(len(r["out"]) + len(r["jout"]) for r in recs), tlc_tail=out[-1200:] if (len(oks) != len(recs)) else "", secs=secs)
