"""Fixture -> (C++ executor source, TLA+ constant definitions).  Single source of truth for both sides.

Fixture JSON:
  name     str
  shape    node = "S" | [kind, strategy, headed, [nodes]]    kind "C"/"O"
  config   manual(bool) order("TopDown"/"BottomUp") payload("void"/"int"/"big"/"odd")
           limit(int) taskcap(int|null) inj([ids 1-based]) defplan([ids]) features([...])
"""
import json, os

STRATS = {"Composite": "Composite", "Resumable": "Resumable", "Selectable": "Selectable",
          "Utilitarian": "Utilitarian", "Random": "Random"}
ALL_FEATURES = ["PLANS", "SERIALIZATION", "TRANSITION_HISTORY", "STRUCTURE_REPORT", "UTILITY_THEORY", "VERBOSE_DEBUG_LOG"]


def norm(node):
    if node == "S":
        return ["S", "", True, []]
    k, sg, headed, subs = node
    return [k, sg if k == "C" else "", bool(headed), [norm(x) for x in subs]]


class Flat:
    """python mirror of Structure.tla (used only to drive generation / menus, never to judge)"""

    def __init__(self, shape):
        self.tab = []
        self.cc = self.oc = self.ou = 0
        self._fl(norm(shape), 0, 0)
        for s, r in enumerate(self.tab):
            r["kids"] = [k + 1 for k, q in enumerate(self.tab) if q["parent"] == s + 1]
        for s in range(len(self.tab) - 1, -1, -1):
            self.tab[s]["size"] = 1 + sum(self.tab[k - 1]["size"] for k in self.tab[s]["kids"])
        self.n = len(self.tab)
        self.rc = self.cc + self.oc

    def _fl(self, node, parent, prong):
        k, sg, headed, subs = node
        sid = len(self.tab) + 1
        rec = dict(kind=k, strat=sg, headed=headed, parent=parent, prong=prong, width=len(subs),
                   compo=self.cc + 1 if k == "C" else 0, ortho=self.oc + 1 if k == "O" else 0,
                   region=(self.cc + self.oc + 1) if k != "S" else 0)
        self.tab.append(rec)
        if k == "C":
            self.cc += 1
        if k == "O":
            self.oc += 1
            self.ou += (len(subs) + 7) // 8
        for i, sub in enumerate(subs):
            self._fl(sub, sid, i + 1)

    def st(self, s):
        return self.tab[s - 1]

    def compo_prongs(self):
        return sum(r["width"] for r in self.tab if r["kind"] == "C")

    def region_head(self, r):
        return next(i + 1 for i, q in enumerate(self.tab) if q["region"] == r)

    def subtree(self, s):
        return list(range(s, s + self.st(s)["size"]))

    def ancestors(self, s):
        out = []
        while self.st(s)["parent"]:
            s = self.st(s)["parent"]
            out.append(s)
        return out


def tla_shape(node):
    k, sg, headed, subs = norm(node)
    return '<<"%s","%s",%s,<<%s>>>>' % (k, sg, "TRUE" if headed else "FALSE", ", ".join(tla_shape(x) for x in subs))


def cfg_of(fx):
    c = dict(manual=True, order="TopDown", payload="int", limit=4, taskcap=None, inj=[], defplan=[],
             features=list(ALL_FEATURES), overrides={}, utility="rational")     # utility: "rational" (exact) | "float"     # overrides: {"<state id>": [methods the state defines]}
    c.update(fx.get("config", {}))
    fl = Flat(fx["shape"])
    if c["taskcap"] is None:
        c["taskcap"] = fl.compo_prongs() * 2
    return c


def tla_defs(fx):
    """TLA+ text defining ShapeDef / CfgDef for this fixture"""
    c = cfg_of(fx)
    fl = Flat(fx["shape"])
    ovr = []
    for s in range(1, fl.n + 1):
        ms = c["overrides"].get(str(s), ALL_METHODS)
        ovr.append("{%s}" % ",".join('"%s"' % m for m in ms))
    return ("ShapeDef == %s\n"
            "CfgDef == [order |-> \"%s\", limit |-> %d, taskcap |-> %d, inj |-> {%s}, defplan |-> {%s}, manual |-> %s, features |-> {%s},\n"
            "           ovr |-> <<%s>>, exact |-> %s]\n"
            % (tla_shape(fx["shape"]), c["order"], c["limit"], c["taskcap"],
               ",".join(map(str, c["inj"])), ",".join(map(str, c["defplan"])), "TRUE" if c["manual"] else "FALSE",
               ",".join('"%s"' % f for f in c["features"]), ", ".join(ovr), "FALSE" if c["utility"] == "float" else "TRUE"))


ALL_METHODS = ["select", "rank", "utility", "entryGuard", "enter", "reenter", "preUpdate", "update", "postUpdate",
               "preReact", "react", "query", "postReact", "exitGuard", "exit", "planSucceeded", "planFailed"]
_SIG = {
    "entryGuard": ("void entryGuard(typename Base::GuardControl& c)", "M_ENTRY_GUARD"),
    "enter": ("void enter(typename Base::PlanControl& c)", "M_ENTER"),
    "reenter": ("void reenter(typename Base::PlanControl& c)", "M_REENTER"),
    "preUpdate": ("void preUpdate(typename Base::FullControl& c)", "M_PRE_UPDATE"),
    "update": ("void update(typename Base::FullControl& c)", "M_UPDATE"),
    "postUpdate": ("void postUpdate(typename Base::FullControl& c)", "M_POST_UPDATE"),
    "preReact": ("void preReact(const Ev&, typename Base::EventControl& c)", "M_PRE_REACT"),
    "react": ("void react(const Ev&, typename Base::EventControl& c)", "M_REACT"),
    "postReact": ("void postReact(const Ev&, typename Base::EventControl& c)", "M_POST_REACT"),
    "query": ("void query(Ev&, typename Base::ConstControl& c) const", "M_QUERY"),
    "exitGuard": ("void exitGuard(typename Base::GuardControl& c)", "M_EXIT_GUARD"),
    "exit": ("void exit(typename Base::PlanControl& c)", "M_EXIT"),
    "planSucceeded": ("void planSucceeded(typename Base::FullControl& c)", "M_PLAN_SUCCEEDED"),
    "planFailed": ("void planFailed(typename Base::FullControl& c)", "M_PLAN_FAILED"),
}


def cpp_specialisation(sid, methods, features):
    """explicit specialisation of St<sid-1> that defines only `methods` (everything else is inherited from FSM::State)"""
    i = sid - 1
    out = ["template <> struct St<%d> : FSM::State {" % i, "\tusing Base = FSM::State;"]
    for me in ("preReact", "react", "postReact", "query"):
        if me not in methods:
            out.append("\tusing Base::%s;" % me)
    for me in methods:
        if me in _SIG:
            if me.startswith("plan") and "PLANS" not in features:
                continue
            sig, mid = _SIG[me]
            out.append("\t%s { ::fx::fwd(c, %d, %s, this); }" % (sig, i, mid))
        elif me == "select":
            out.append("\thfsm2::Prong select(const typename Base::Control& c) { return (hfsm2::Prong) ::fx::fwdSelect(c, %d); }" % i)
        elif me == "rank" and "UTILITY_THEORY" in features:
            out.append("\ttypename Base::Rank rank(const typename Base::Control& c) { return (typename Base::Rank) ::fx::fwdRank(c, %d); }" % i)
        elif me == "utility" and "UTILITY_THEORY" in features:
            out.append("\ttypename Base::Utility utility(const typename Base::Control& c) { return ::fx::fwdUtility(c, %d); }" % i)
    out.append("};")
    return "\n".join(out)


def cpp_type(node, counter):
    k, sg, headed, subs = node
    sid = counter[0]
    counter[0] += 1
    if k == "S":
        return "St<%d>" % sid
    inner = [cpp_type(x, counter) for x in subs]
    if k == "C":
        name = {"Composite": "Composite", "Resumable": "Resumable", "Selectable": "Selectable",
                "Utilitarian": "Utilitarian", "Random": "Random"}[sg]
    else:
        name = "Orthogonal"
    if headed:
        return "M::%s<St<%d>, %s>" % (name, sid, ", ".join(inner))
    return "M::%sPeers<%s>" % (name, ", ".join(inner))


def cpp_root(node):
    k, sg, headed, subs = node
    counter = [1]
    inner = [cpp_type(x, counter) for x in subs]
    if k == "C":
        base = {"Composite": "", "Resumable": "Resumable", "Selectable": "Selectable",
                "Utilitarian": "Utilitarian", "Random": "Random"}[sg]
    else:
        base = "Orthogonal"
    if headed:
        return "M::%sRoot<St<0>, %s>" % (base, ", ".join(inner))
    return "M::%sPeerRoot<%s>" % (base, ", ".join(inner))


def cpp_source(fx, header="hfsm2/machine.hpp", extra_defines=()):
    c = cfg_of(fx)
    fl = Flat(fx["shape"])
    shape = norm(fx["shape"])
    lines = ["// generated by engine/gen.py from fixture '%s' -- do not edit" % fx["name"]]
    for f in c["features"]:
        lines.append("#define HFSM2_ENABLE_%s" % f)
    for d in extra_defines:
        lines.append("#define %s" % d)
    if c["utility"] == "float":
        lines.append("#define FX_FLOAT_UTILITY 1")
    lines.append('#include <%s>' % header)
    lines.append('#include "prelude.hpp"')
    lines.append("namespace fx {")
    pay = {"void": None, "int": "vf::PayInt", "big": "vf::PayBig", "odd": "vf::PayOdd"}[c["payload"]]
    cfgt = "hfsm2::Config::ContextT<vf::Ctx*>"
    if c["manual"]:
        cfgt += "::ManualActivation"
    if c["order"] == "BottomUp":
        cfgt += "::BottomUpReactions"
    if "UTILITY_THEORY" in c["features"]:
        cfgt += ("::RankT<int>::RandomT<vf::ScriptedRng>" if c["utility"] == "float"
                 else "::RankT<int>::UtilityT<vf::Rational>::RandomT<vf::ScriptedRng>")
    cfgt += "::SubstitutionLimitN<%d>" % c["limit"]
    if "PLANS" in c["features"] and fx.get("config", {}).get("taskcap") is not None:
        cfgt += "::TaskCapacityN<%d>" % c["taskcap"]
    if pay:
        cfgt += "::PayloadT<%s::Type>" % pay
        lines.append("using PayPolicy = %s;" % pay)
    else:
        lines.append("using PayPolicy = void;")
    lines.append("using Config = %s;" % cfgt)
    lines.append("using M = hfsm2::MachineT<Config>;")
    lines.append("template <int ID> struct St;")
    lines.append("using FSM = %s;" % cpp_root(shape))
    lines.append("static constexpr int N = %d, RC = %d;" % (fl.n, fl.rc))
    lines.append("static const bool kCompoHead[N] = {%s};" % ",".join("true" if r["kind"] == "C" else "false" for r in fl.tab))

    def cfun(name, ids):
        expr = " || ".join("id == %d" % (i - 1) for i in ids) or "false && id == 0"
        return "constexpr bool %s(int id) { return %s; }" % (name, expr)
    lines.append(cfun("isInj", c["inj"]))
    lines.append(cfun("isDefPlan", c["defplan"]))
    users = [s for s in range(1, fl.n + 1) if fl.st(s)["headed"]]
    lines.append("template <typename V> static void visitStates(V& v) { %s }" %
                 " ".join("v.template visit<%d>();" % (s - 1) for s in users))
    lines.append("}")
    if c["manual"]:
        lines.append("#define FX_MANUAL 1")
    if c["overrides"]:
        assert not c["inj"], "fixtures with partial overrides carry no injected handlers"
        spec = "\n".join(cpp_specialisation(int(k), v, c["features"]) for k, v in sorted(c["overrides"].items(), key=lambda kv: int(kv[0])))
        lines.append("#define FX_SPECIALISATIONS \\\n" + " \\\n".join(spec.split("\n")))
    lines.append('#include "driver.inl"')
    # structural cross-check against Structure.tla's python mirror (C17 does the real job)
    lines.append("namespace fx {")
    lines.append("static_assert(FSM::Args::STATE_COUNT == %d, \"state count\");" % fl.n)
    lines.append("static_assert(FSM::Args::COMPO_COUNT == %d, \"compo count\");" % fl.cc)
    lines.append("static_assert(FSM::Args::ORTHO_COUNT == %d, \"ortho count\");" % fl.oc)
    for s in users:
        lines.append("static_assert(FSM::stateId<St<%d>>() == %d, \"id\");" % (s - 1, s - 1))
    lines.append("}")
    lines.append('#include "main.inl"')
    return "\n".join(lines) + "\n"


def load_fixture(path):
    with open(path) as f:
        fx = json.load(f)
    fx.setdefault("name", os.path.splitext(os.path.basename(path))[0])
    return fx


if __name__ == "__main__":
    import sys
    fx = load_fixture(sys.argv[1])
    if sys.argv[2] == "cpp":
        sys.stdout.write(cpp_source(fx))
    else:
        sys.stdout.write(tla_defs(fx))
