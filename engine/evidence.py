import json, os
from .tlc import VERIF


def write(pid, tier, seed, level, coverage, assumptions, wall_s, violations):
    os.makedirs(os.path.join(VERIF, "evidence"), exist_ok=True)
    ev = dict(property_id=pid, tier=tier, seed=int(seed), level=level, coverage=coverage,
              assumptions=list(assumptions), wall_s=round(float(wall_s), 2), violations=int(violations))
    with open(os.path.join(VERIF, "evidence", pid + ".json"), "w") as f:
        json.dump(ev, f, indent=1, default=str)
    return ev
