"""Running TLC on generated modules inside a scratch directory under /verif/.cache."""
import os, re, shutil, subprocess, tempfile, time

VERIF = os.path.dirname(os.path.dirname(os.path.abspath(__file__)))
SPEC = os.path.join(VERIF, "spec")
CACHE = os.path.join(VERIF, ".cache")


def scratch(prefix):
    os.makedirs(CACHE, exist_ok=True)
    return tempfile.mkdtemp(prefix=prefix + "-", dir=CACHE)


def stage_spec(d):
    for f in os.listdir(SPEC):
        if f.endswith(".tla"):
            shutil.copy(os.path.join(SPEC, f), os.path.join(d, f))


def run_tlc(d, module, cfg, env=None, workers=1, timeout=900, extra=(), heap="4g", deque=False, tag="", stop_after=None):
    """returns (returncode, stdout text, seconds)"""
    e = dict(os.environ)
    e.update(env or {})
    opts = "-Xmx%s -Xss512m -XX:+UseParallelGC" % heap
    if deque:
        opts += " -Dtlc2.tool.queue.IStateQueue=StateDeque"
    if stop_after:
        opts += " -Dtlc2.TLC.stopAfter=%d" % int(stop_after)      # TLC ends the search itself and reports what it covered
    e["JAVA_TOOL_OPTIONS"] = opts
    meta = os.path.join(d, "meta-" + module + tag)
    # (-Xss also on the command line: the launcher sizes the main thread, which evaluates ASSUMEs, from its own arguments only)
    cmd = ["timeout", str(timeout), "java", "-Xss512m", "-cp", "/opt/veriftools/tla/tla2tools.jar:/opt/veriftools/tla/CommunityModules-deps.jar",
           "tlc2.TLC", "-workers", str(workers), "-metadir", meta, "-deadlock", "-config", cfg, module + ".tla"] + list(extra)
    t0 = time.time()
    p = subprocess.run(cmd, cwd=d, env=e, stdout=subprocess.PIPE, stderr=subprocess.STDOUT, universal_newlines=True)
    shutil.rmtree(meta, ignore_errors=True)
    return p.returncode, p.stdout, time.time() - t0


def parse_stats(out):
    st = {}
    ms = re.findall(r"(\d+) states generated, (\d+) distinct states found, (\d+) states left on queue", out)
    if ms:
        st["generated"], st["distinct"], st["left_on_queue"] = (int(x) for x in ms[-1])
    m = re.search(r"The depth of the complete state graph search is (\d+)", out)
    if m:
        st["depth"] = int(m.group(1))
    return st


def printed(out, tag):
    """values printed by PrintT(<<tag, ...>>): TLC wraps long tuples over several lines; returns list of lists of the
    remaining elements as raw strings (JSON strings unescaped)"""
    items, cur, depth = [], "", 0
    for line in out.splitlines():
        if not cur and not line.startswith("<<"):
            continue
        cur += line.strip() + " "
        depth += line.count("<<") - line.count(">>")
        if depth <= 0:
            items.append(cur.strip())
            cur, depth = "", 0
    res = []
    for it in items:
        m = re.match(r'<<\s*"%s"\s*,(.*)>>\s*$' % re.escape(tag), it, re.S)
        if m:
            res.append(m.group(1).strip())
    return res


def unjson(s):
    """a TLA+ string literal holding JSON -> python object"""
    s = s.strip()
    assert s.startswith('"') and s.endswith('"'), s[:80]
    import json
    return json.loads(s[1:-1].encode().decode("unicode_escape"))
