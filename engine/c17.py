"""C17: identifiers and structural metadata follow the declaration for every shape.

spec/Structure.tla is the oracle: TLC evaluates `Metadata` for every enumerated declaration term (parameterised
INSTANCE), the generator turns the table into C++ static_asserts on FSM::stateId<>(), regionId<>(), the published
counts, SERIAL_BITS and the default TASK_CAPACITY, and the compiler decides them against /repo's headers."""
import itertools, json, os, random, re, subprocess
from functools import lru_cache
from . import tlc, build

STRATS = ["Composite", "Resumable", "Selectable", "Utilitarian", "Random"]


@lru_cache(None)
def trees(n):
    """ordered trees with n nodes as nested tuples of children"""
    if n == 1:
        return [()]

    def forests(k):
        if k == 0:
            return [()]
        res = []
        for first in range(1, k + 1):
            for t in trees(first):
                for rest in forests(k - first):
                    res.append((t,) + rest)
        return res
    return forests(n - 1)


def labellings(t, rnd=None):
    """all labellings of internal nodes with (kind, headed); strategy chosen round-robin (ids do not depend on it)"""
    if not t:
        yield "S"
        return
    kid_opts = [list(labellings(c)) for c in t]
    for kids in itertools.product(*kid_opts):
        for kind in ("C", "O"):
            for headed in (True, False):
                yield [kind, STRATS[(len(kids) + (1 if headed else 0)) % 5] if kind == "C" else "", headed, list(kids)]


def all_shapes(max_states):
    out = []
    for n in range(2, max_states + 1):
        for t in trees(n):
            out.extend(labellings(t))
    return out


def random_shape(rnd, max_states, max_width=9, max_depth=6):
    budget = [max_states - 1]

    def node(depth):
        if budget[0] <= 0 or depth >= max_depth or rnd.random() < 0.35:
            return "S"
        w = rnd.randint(1, min(max_width, budget[0]))
        budget[0] -= w
        kids = [node(depth + 1) for _ in range(w)]
        kind = rnd.choice(["C", "C", "O"])
        return [kind, rnd.choice(STRATS) if kind == "C" else "", rnd.random() < 0.7, kids]
    w = rnd.randint(1, min(max_width, budget[0]))
    budget[0] -= w
    kids = [node(1) for _ in range(w)]
    kind = rnd.choice(["C", "C", "O"])
    return [kind, rnd.choice(STRATS) if kind == "C" else "", rnd.random() < 0.7, kids]


def wide_deep_family():
    S = "S"
    out = []
    for w in (1, 2, 3, 5, 7, 8, 9, 15, 16, 17):
        out.append(["C", "Composite", True, [S] * w])
        out.append(["O", "", True, [S] * w])
        out.append(["C", "Resumable", False, [["O", "", False, [S] * w], S, ["C", "Selectable", True, [S] * w]]])
    for d in range(2, 9):
        t = S
        for i in range(d):
            t = ["C" if i % 2 == 0 else "O", "Composite" if i % 2 == 0 else "", i % 3 != 0, [S, t] if i % 2 else [t, S]]
        if t[0] == "O" or True:
            out.append(t if t != S else ["C", "Composite", True, [S]])
    return out


def tla_shape(node):
    from .gen import tla_shape as ts
    return ts(node)


def evaluate(shapes, chunk=400):
    """Structure!Metadata for every shape (list of dicts, same order)"""
    d = tlc.scratch("c17")
    tlc.stage_spec(d)
    metas = [None] * len(shapes)
    for c0 in range(0, len(shapes), chunk):
        part = shapes[c0:c0 + chunk]
        name = "C17_%d" % c0
        with open(os.path.join(d, name + ".tla"), "w") as f:
            f.write("---- MODULE %s ----\nEXTENDS Naturals, Sequences, TLC, Json\n" % name)
            f.write("Shapes == <<\n%s\n>>\n" % ",\n".join(tla_shape(s) for s in part))
            f.write("S(sh) == INSTANCE Structure WITH Shape <- sh\n")
            f.write('ASSUME \\A i \\in DOMAIN Shapes : PrintT(<<"META", i, ToJson(S(Shapes[i])!Metadata)>>)\n====\n')
        open(os.path.join(d, name + ".cfg"), "w").write("\n")
        rc, out, secs = tlc.run_tlc(d, name, name + ".cfg", workers=1, timeout=1200)
        for item in tlc.printed(out, "META"):
            idx, js = item.split(",", 1)
            metas[c0 + int(idx) - 1] = tlc.unjson(js)
    import shutil
    shutil.rmtree(d, ignore_errors=True)
    return metas


def cpp_type(node, counter):
    if node == "S":
        sid = counter[0]; counter[0] += 1
        return "St<%d>" % sid
    k, sg, headed, subs = node
    sid = counter[0]; counter[0] += 1
    inner = [cpp_type(x, counter) for x in subs]
    name = {"Composite": "Composite", "Resumable": "Resumable", "Selectable": "Selectable", "Utilitarian": "Utilitarian",
            "Random": "Random"}[sg] if k == "C" else "Orthogonal"
    if headed:
        return "M::%s<St<%d>, %s>" % (name, sid, ", ".join(inner))
    return "M::%sPeers<%s>" % (name, ", ".join(inner))


def cpp_root(node):
    k, sg, headed, subs = node
    counter = [1]
    inner = [cpp_type(x, counter) for x in subs]
    base = ({"Composite": "", "Resumable": "Resumable", "Selectable": "Selectable", "Utilitarian": "Utilitarian",
             "Random": "Random"}[sg]) if k == "C" else "Orthogonal"
    if headed:
        return "M::%sRoot<St<0>, %s>" % (base, ", ".join(inner))
    return "M::%sPeerRoot<%s>" % (base, ", ".join(inner))


def headed_flags(node, out):
    if node == "S":
        out.append(True)
        return
    out.append(bool(node[2]))
    for x in node[3]:
        headed_flags(x, out)


def cpp_unit(shapes, metas, first_index):
    lines = ["#define HFSM2_ENABLE_PLANS", "#define HFSM2_ENABLE_SERIALIZATION", "#define HFSM2_ENABLE_UTILITY_THEORY",
             "#include <hfsm2/machine.hpp>", "template <int N, int ID> struct St_;", "using M = hfsm2::MachineT<hfsm2::Config>;"]
    for i, (sh, me) in enumerate(zip(shapes, metas)):
        n = first_index + i
        lines.append("namespace s%d {" % n)
        lines.append("template <int ID> using St = St_<%d, ID>;" % n)
        lines.append("using FSM = %s;" % cpp_root(sh))
        flags = []
        headed_flags(sh, flags)
        A = "static_assert(%s == %d, \"shape %d: %s\");"
        lines.append(A % ("FSM::Args::STATE_COUNT", me["states"], n, "states"))
        lines.append(A % ("FSM::Args::REGION_COUNT", me["regions"], n, "regions"))
        lines.append(A % ("FSM::Args::COMPO_COUNT", me["compos"], n, "compos"))
        lines.append(A % ("FSM::Args::ORTHO_COUNT", me["orthos"], n, "orthos"))
        lines.append(A % ("FSM::Args::ORTHO_UNITS", me["units"], n, "units"))
        lines.append(A % ("FSM::Apex::COMPO_PRONGS", me["prongs"], n, "prongs"))
        lines.append(A % ("FSM::Apex::REVERSE_DEPTH", me["reverse_depth"], n, "reverse depth"))
        lines.append(A % ("FSM::Args::SERIAL_BITS", me["serial_bits"], n, "serial bits"))
        lines.append(A % ("FSM::Args::TASK_CAPACITY", me["task_capacity"], n, "task capacity"))
        for s, ps in enumerate(me["per_state"]):
            if flags[s]:
                lines.append(A % ("FSM::stateId<St<%d>>()" % s, s, n, "state id"))
                if ps["region"]:
                    lines.append(A % ("FSM::regionId<St<%d>>()" % s, ps["region"] - 1, n, "region id"))
        lines.append("}")
    lines.append("int main() { return 0; }")
    return "\n".join(lines) + "\n"


def compile_units(shapes, metas, per_unit=150, jobs=16):
    """returns list of (unit index, compiler output) for failing units"""
    from concurrent.futures import ThreadPoolExecutor
    d = tlc.scratch("c17cpp")
    inc = os.path.join(build.REPO, "include")

    def one(u):
        part = shapes[u:u + per_unit]
        src = os.path.join(d, "u%d.cpp" % u)
        open(src, "w").write(cpp_unit(part, metas[u:u + per_unit], u))
        p = subprocess.run(["g++", "-std=c++14", "-fsyntax-only", "-w", "-I", inc, src], stdout=subprocess.PIPE,
                           stderr=subprocess.STDOUT, universal_newlines=True)
        return (u, p.returncode, "\n".join(l[:300] for l in p.stdout.splitlines() if "error" in l or "static assertion" in l)[:3000])
    with ThreadPoolExecutor(max_workers=jobs) as pool:
        res = list(pool.map(one, range(0, len(shapes), per_unit)))
    import shutil
    shutil.rmtree(d, ignore_errors=True)
    return [r for r in res if r[1] != 0]
