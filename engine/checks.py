"""Per-property checks: shared conformance campaign + design-level model checking + property-specific parts.

A campaign = executors built from /repo's current tree, driven by seeded random walks (and, in the thorough
tier, more fixtures / variants), every recorded step judged by TLC against spec/Trace.tla.  All properties that
are decided on machine-level behaviour share one campaign per (repo hash, verif hash, tier, seed)."""
import hashlib, json, os, random, shutil, sys, time
from . import gen, build, explore, tlc, mc

VERIF = tlc.VERIF
SEED = int(os.environ.get("VERIF_SEED", "1"))

# tag (printed by spec/Trace.tla) -> property.  `act`/`isA`/`res` are routed by route_config().
TAG_PROPERTY = {
    "mon.wf.post": "C01", "mon.wf.ev": "C01", "on": "C01",
    "mon.balanced": "C03", "mon.exited-all": "C03", "badThis": "C03", "badOrigin": "C03",
    "mon.idle.req": "C02", "mon.guards-first": "C04", "mon.veto.act": "C04", "mon.veto.res": "C04", "mon.veto.life": "C04",
    "ev.guard": "C04", "ev.guard.pending": "C04", "q": "C04", "req": "C04", "rem": "C04", "oreq": "C04",
    "ev.traverse": "C05", "mon.reach": "C05", "mon.consume": "C05", "mon.inj.order": "C05", "mon.inj.order.D13": "C05",
    "ev.plan": "C06", "ev.status": "C06", "plans": "C06", "pex": "C06", "succ": "C06", "fail": "C06", "tasks": "C06", "hst": "C06", "sst": "C06",
    "plog": "C07", "mon.plan.iter": "C07", "mon.plan.chain": "C07", "mon.plan.disjoint": "C07", "mon.plan.count": "C07", "mon.plan.free": "C07",
    "prev": "C09", "tt": "C09", "last": "C09",
    "mon.idle.pe": "C13", "mon.idle.px": "C13", "mon.idle.pc": "C13", "mon.idle.px.D10": "C13", "mon.idle.pc.D10": "C13", "mon.scheduled": "C13", "mon.resume": "C13", "sub": "C13",
    "isR": "C13", "isS": "C13", "ev.guard.queries": "C13", "pe": "C13", "px": "C13", "pc": "C13", "ev.config": "C13",
    "prev.payload": "C14", "ev.guard.payload": "C14", "ev.life.payload": "C14",
    "mon.payload.guard": "C14", "mon.payload.life": "C14", "mon.payload.prev": "C14", "mon.payload.last": "C14",
    "mon.report": "C16", "strA": "C16", "hist": "C16", "lg": "C16",
    "log.methods": "C16", "log.requests": "C16", "log.statuses": "C16", "log.resolutions": "C16", "log.order": "C16",
    "draws": "C12", "log.utilities": "C12", "mon.random.count": "C12", "mon.random.rank": "C12", "mon.random.zero": "C12", "mon.random.ids": "C12",
    "asserts": "C11", "allocs": "C11",
    "buf": "C08", "mon.load.act": "C08", "mon.load.res": "C08", "mon.load.exit": "C08", "mon.load.enter": "C08",
    "ret": "C09", "mon.replay.act": "C09", "mon.replay.res": "C09",
}
CONFIG_TAGS = {"act", "isA", "res", "ev.guard.requested"}
UNATTRIBUTED = {"ev.life", "ev.report", "ev.all"}

TIERS = {
    "quick": dict(fixtures=["min", "comp", "ortho", "strat", "auto", "peers", "util", "plancap", "bare", "floaty", "utilortho", "selutil", "oroot3"], records=900, chunks=3,
                  variants=["plain", "asan", "assert"], extra_variant_fixtures=["min", "ortho", "auto"],
                  mc=["min", "comp", "util", "selutil"], mc_pair=["min"], systematic={"auto": 2, "ortho": 1}),
    "thorough": dict(fixtures=["min", "comp", "ortho", "strat", "auto", "peers", "oroot", "wide", "plan", "selpeers", "util", "plancap", "bare", "floaty", "utilortho", "selutil", "oroot3"],
                     records=12000, chunks=12, variants=["plain", "asan", "assert", "dev", "plain11"], mc=["min", "comp", "ortho", "oroot", "util", "peers", "selutil", "utilortho"], mc_pair=["min", "comp", "ortho"], mc_budget=300,
                     systematic={"min": 12, "comp": 10, "ortho": 8, "strat": 6, "auto": 10, "peers": 6, "oroot": 8, "plan": 6}),
}


def verif_hash():
    h = hashlib.sha256()
    for sub in ("spec", "harness", "engine", "fixtures"):
        for dp, dn, fn in sorted(os.walk(os.path.join(VERIF, sub))):
            dn[:] = sorted(d for d in dn if d != "__pycache__")
            for f in sorted(fn):
                if f.endswith((".pyc",)):
                    continue
                p = os.path.join(dp, f)
                h.update(p.encode())
                h.update(open(p, "rb").read())
    h.update(open(os.path.join(VERIF, "known_findings.json"), "rb").read())
    return h.hexdigest()


def load_findings():
    return json.load(open(os.path.join(VERIF, "known_findings.json")))


def open_switches():
    return sorted({f["switch"] for f in load_findings() if f["status"] == "open" and f.get("switch")})


def fixture(name):
    return gen.load_fixture(os.path.join(VERIF, "fixtures", name + ".json"))


# ------------------------------------------------------------------------------------------

def campaign(tier, seed=SEED, log=print):
    """returns the (cached) campaign result dict"""
    cfg = TIERS[tier]
    key = hashlib.sha256(("%s|%s|%s|%d" % (build.repo_hash(), verif_hash(), tier, seed)).encode()).hexdigest()[:24]
    cdir = os.path.join(tlc.CACHE, "campaign", key)
    rfile = os.path.join(cdir, "result.json")
    if os.path.exists(rfile):
        return json.load(open(rfile))
    shutil.rmtree(cdir, ignore_errors=True)
    os.makedirs(cdir)
    t0 = time.time()
    dev = open_switches()
    result = dict(key=key, tier=tier, seed=seed, dir=cdir, runs=[], errors=[])
    jobs = []
    for fxname in cfg["fixtures"]:
        fx = fixture(fxname)
        for variant in cfg["variants"]:
            if variant != "plain" and fxname not in cfg.get("extra_variant_fixtures", cfg["fixtures"]):
                continue
            try:
                exe = build.build(fx, variant)
            except RuntimeError as e:
                result["errors"].append(dict(kind="build", fixture=fxname, variant=variant, msg=str(e)[:2000]))
                continue
            nrec = cfg["records"] if variant == "plain" else max(300, cfg["records"] // 4)
            nchunks = cfg["chunks"] if variant == "plain" else max(1, cfg["chunks"] // 4)
            files, crashes = [], []
            for i in range(nchunks):
                f = os.path.join(cdir, "%s-%s-%d.ndjson" % (fxname, variant, i))
                s = (seed * 7919 + i * 104729 + sum(map(ord, fxname + variant))) & 0x7fffffff
                n, crash = explore.random_walks(fx, exe, f, s, nrec // nchunks,
                                                profile=(dict(serial=False) if variant == "assert" and gen.cfg_of(fx)["manual"] else None))
                if crash:
                    crashes.append(dict(file=f, rc=crash[0], stderr=crash[1][-1500:], records=n))
                files.append(f)
            if variant == "plain" and fxname in cfg.get("systematic", {}):
                fs, n, crash = explore.exhaustive_walk(fx, exe, cdir, tier, cfg["systematic"][fxname], seed=seed, parts=8)
                if crash:
                    crashes.append(dict(file=fs[-1] if fs else "", rc=crash[0], stderr=crash[1][-1500:], records=n))
                files += fs
            if variant == "plain" and "PLANS" in gen.cfg_of(fx)["features"]:
                f = os.path.join(cdir, "%s-%s-scenarios.ndjson" % (fxname, variant))
                n, crash = explore.plan_scenarios(fx, exe, f, payloads=(0, 2) if gen.cfg_of(fx)["payload"] != "void" else (0,))
                if crash:
                    crashes.append(dict(file=f, rc=crash[0], stderr=crash[1][-1500:], records=n))
                files.append(f)
            if variant == "plain" and "TRANSITION_HISTORY" in gen.cfg_of(fx)["features"]:
                f = os.path.join(cdir, "%s-%s-resume.ndjson" % (fxname, variant))
                n, crash = explore.resume_scenarios(fx, exe, f)
                if crash:
                    crashes.append(dict(file=f, rc=crash[0], stderr=crash[1][-1500:], records=n))
                if n:
                    files.append(f)
            if variant in ("plain", "asan", "assert"):
                feats = set(gen.cfg_of(fx)["features"])
                for kind, fn in (("replica", explore.replica_walk), ("copy", explore.copy_walk)):
                    if kind == "replica" and not {"TRANSITION_HISTORY", "SERIALIZATION"} <= feats:
                        continue
                    if variant != "plain" and (kind == "copy" or (variant == "assert" and gen.cfg_of(fx)["manual"])):
                        continue        # (over-long replays are also run under the sanitizers and the assertion hook)
                    f = os.path.join(cdir, "%s-%s-%s.ndjson" % (fxname, variant, kind))
                    s = (seed * 31337 + sum(map(ord, fxname + kind))) & 0x7fffffff
                    n, crash = fn(fx, exe, f, s, max(150, nrec // 6))
                    if crash:
                        crashes.append(dict(file=f, rc=crash[0], stderr=crash[1][-1500:], records=n))
                    files.append(f)
            jobs.append((fx, fxname, variant, files, crashes))
    log("campaign %s: walks done in %.0fs" % (key, time.time() - t0))
    for fx, fxname, variant, files, crashes in jobs:
        d, res = explore.validate(fx, files, dev=dev, jobs=16)
        run = dict(fixture=fxname, variant=variant, files=files, crashes=crashes, checked=0, diffs=[], notes={}, tlc_errors=[])
        for r in res:
            run["checked"] += r["checked"]
            if r["error"]:
                run["tlc_errors"].append(dict(file=r["file"], msg=r["error"][-1500:]))
            calls = {}
            if r["diffs"]:
                with open(r["file"]) as fh:
                    for i, line in enumerate(fh, 1):
                        calls[i] = json.loads(line)["a"][0]
            for dd in r["diffs"]:
                run["diffs"].append(dict(file=r["file"], l=dd["l"], tag=dd["tag"], call=calls.get(dd["l"], ""),
                                         detail=[x[:600] for x in dd["detail"]]))
            for (l, note) in r["notes"]:
                run["notes"].setdefault(str(note), []).append([r["file"], l])
        shutil.rmtree(d, ignore_errors=True)
        result["runs"].append(run)
    result["secs"] = time.time() - t0
    json.dump(result, open(rfile, "w"))
    log("campaign %s: validated in %.0fs" % (key, time.time() - t0))
    return result


def mc_results(tier, log=print):
    cfg = TIERS[tier]
    key = hashlib.sha256(("mc|%s|%s" % (verif_hash(), tier)).encode()).hexdigest()[:24]
    cdir = os.path.join(tlc.CACHE, "mc", key)
    rfile = os.path.join(cdir, "result.json")
    if os.path.exists(rfile):
        return json.load(open(rfile))
    shutil.rmtree(cdir, ignore_errors=True)
    os.makedirs(cdir)
    out = dict(key=key, tier=tier, models=[])
    for fxname in cfg["mc"]:
        fx = fixture(fxname)
        # quick models are run to completion; thorough ones get a time budget (TLC reports what it covered)
        r = mc.run(fx, tier, dev=open_switches(), timeout=900, budget=cfg.get("mc_budget"))
        tail = ""
        if not r["ok"]:
            i = r["out"].find("Error:")
            tail = r["out"][i:i + 3000]
        out["models"].append(dict(fixture=fxname, ok=r["ok"], complete=r["complete"], violated=r["violated"], stats=r["stats"], secs=r["secs"],
                                  menu={k: (v if not isinstance(v, list) else len(v)) for k, v in r["menu"].items()},
                                  error=tail, props=mc.PROPS + mc.INVS))
        shutil.rmtree(r["dir"], ignore_errors=True)
        log("mc %s: %s %s %.0fs" % (fxname, "ok" if r["ok"] else "FAILED", r["stats"], r["secs"]))
    # C08: the save / load pair model (every configuration reachable by single requests x every buffer saved in another)
    for fxname in cfg.get("mc_pair", []):
        fx = fixture(fxname)
        props, invs = ["P_Load", "P_SaveUntouched"], ["RoundTrip", "WellFormedState"]
        r = mc.run(fx, tier, dev=open_switches(), timeout=900, budget=cfg.get("mc_budget"), menu=mc.pair_menu(fx), props=props, invs=invs)
        tail = ""
        if not r["ok"]:
            i = r["out"].find("Error:")
            tail = r["out"][i:i + 3000]
        out["models"].append(dict(fixture=fxname + "/pair", ok=r["ok"], complete=r["complete"], violated=r["violated"], stats=r["stats"], secs=r["secs"],
                                  menu={k: (v if not isinstance(v, list) else len(v)) for k, v in r["menu"].items()}, error=tail, props=props + invs))
        shutil.rmtree(r["dir"], ignore_errors=True)
        log("mc %s/pair: %s %s %.0fs" % (fxname, "ok" if r["ok"] else "FAILED", r["stats"], r["secs"]))
    json.dump(out, open(rfile, "w"))
    return out


# ------------------------------------------------------------------------------------------
# which property does a diff belong to

def vetoed_records(run):
    return {(f, l) for f, l in run["notes"].get("vetoed", [])}


def planedit_records(run):
    return {(f, l) for f, l in run["notes"].get("planedit", [])}


def planexec_records(run):
    return {(f, l) for f, l in run["notes"].get("planexec", [])}


def route(run, d, rec_kinds=None):
    """property id for a diff, or None (unattributed)"""
    tag = d["tag"]
    call = d.get("call", "")
    if tag in CONFIG_TAGS or (call in ("load", "save", "replay", "replayenter", "copy") and tag in ("sub", "isR", "isS", "ev.life", "ev.all", "strA", "hist")):
        if call in ("load", "save"):
            return "C08"
        if call in ("replay", "replayenter"):
            return "C09"
        if call == "copy":
            return "C10"
        if tag in CONFIG_TAGS:
            return "C04" if (d["file"], d["l"]) in vetoed_records(run) else "C02"
    if tag in ("plans", "tasks", "pex", "plog") and (d["file"], d["l"]) in planedit_records(run) and (d["file"], d["l"]) not in planexec_records(run):
        return "C07"
    return TAG_PROPERTY.get(tag)


# Functional projections are judged in pipeline order: a call runs traversal callbacks, then plans, then resolves
# requests, then guards, lifecycle, history and reports.  A deviation at an early stage makes every later projection of
# the same record differ as well, so for each record only the EARLIEST deviating stage raises a functional alarm
# (monitors, which judge the observed data alone, always count for their own property).
STAGES = [
    ("C05", {"ev.traverse"}),
    ("C06", {"ev.plan", "ev.status", "succ", "fail", "hst", "sst"}),
    ("C12", {"draws", "log.utilities"}),
    ("CFG", {"ev.guard.requested", "act", "isA", "res"}),
    ("C06", {"plans", "pex", "tasks", "plog"}),     # plan edits made from lifecycle callbacks come after the resolution
                                                    # (C07 when user code edited a plan in that step, see primary())
    ("C04", {"ev.guard", "ev.guard.pending", "q", "req", "rem", "oreq"}),
    ("C13", {"sub", "isR", "isS", "ev.guard.queries", "pe", "px", "pc", "ev.config"}),
    ("C09", {"prev", "tt", "last", "ret"}),
    ("C14", {"prev.payload", "ev.guard.payload", "ev.life.payload"}),
    ("C16", {"strA", "hist", "lg", "log.methods", "log.requests", "log.statuses", "log.resolutions", "log.order"}),
    ("C08", {"buf"}),
]


def is_monitor(tag):
    return tag.startswith("mon.") or tag in ("badThis", "badOrigin", "asserts", "allocs", "on")


# leftovers of a load / replay / copy (requested prongs, pending answers while idle) are that operation's matter
CALL_OWNER = {"load": "C08", "replay": "C09", "replayenter": "C09", "copy": "C10"}


def monitor_owner(d):
    if d["tag"].startswith("mon.idle.") and d.get("call") in CALL_OWNER and not d["tag"].endswith(".D10"):
        return CALL_OWNER[d["call"]]
    return TAG_PROPERTY.get(d["tag"])


def primary(run, ds):
    """(property, [diffs]) that raises the functional alarm for one record, or (None, [])"""
    tags = {d["tag"] for d in ds}
    call = ds[0].get("call", "")
    for prop, stage_tags in STAGES:
        hit = [d for d in ds if d["tag"] in stage_tags]
        if not hit:
            continue
        key = (ds[0]["file"], ds[0]["l"])
        if prop == "C06" and "plans" in stage_tags and key in planedit_records(run) and key not in planexec_records(run):
            return "C07", hit       # the storage of tasks (append / remove / clear / iteration), not the execution of plans
        if prop == "CFG" and key in planexec_records(run) and tags & {"plans", "tasks"}:
            return "C06", hit       # the plan executor ran and left other tasks behind than it should: its outcome, not the resolution's
        if prop == "C16" and all(d["tag"].startswith("log.") or d["tag"] == "lg" for d in hit):
            return prop, hit        # what the logger was told is C16's matter whatever the call
        if prop == "CFG" or call in ("load", "save", "copy"):
            if call in ("load", "save"):
                prop = "C08"
            elif call == "copy":
                prop = "C10"
            elif call in ("replay", "replayenter"):
                prop = "C02"        # replay re-resolves with the same machinery; C09 owns the replica monitors and the history projections
            elif prop == "CFG":
                f, l = ds[0]["file"], ds[0]["l"]
                by_choice = "C12" if "ev.report" in tags or "draws" in tags else "C02"
                # what the requests were resolved to is the resolution's matter also in a vetoed step; a configuration that
                # differs after a veto although the guards ran under the expected registry is the veto's
                prop = by_choice if "ev.guard.requested" in tags else ("C04" if (f, l) in vetoed_records(run) else by_choice)
        return prop, hit
    return None, []


MC_PROPS = {"C01": ["WellFormedState", "WellFormedCallbacks"], "C02": ["P_Prescribed"], "C12": ["P_Prescribed"], "C08": ["RoundTrip", "P_Load", "P_SaveUntouched"], "C03": ["P_Balanced"],
            "C04": ["P_Guards"], "C05": ["P_Delivery"], "C09": ["P_Replay"], "C13": ["ResumeNamed"]}


class Outcome:
    def __init__(self, pid, tier):
        self.pid, self.tier = pid, tier
        self.violations, self.known, self.machinery = [], [], []
        self.coverage = {}
        self.assumptions = []
        self.t0 = time.time()

    def finish(self, level):
        from . import evidence
        for k in self.known:
            print("KNOWN-FINDING: property=%s %s" % (self.pid, k))
        for v in self.violations:
            print("VIOLATION property=%s replay=%s  # %s" % (self.pid, v["replay"], v["what"][:300]))
        for m in self.machinery:
            print("MACHINERY-ERROR %s" % m[:500])
        evidence.write(self.pid, self.tier, SEED, level, self.coverage, self.assumptions, time.time() - self.t0, len(self.violations))
        if self.violations:
            return 1
        if self.machinery:
            return 2
        return 0


def assertion_sites(texts):
    """(basename, line) of every source line in the current headers that contains one of `texts`"""
    sites = set()
    roots = [os.path.join(build.REPO, "include"), os.path.join(build.REPO, "development")]
    for root in roots:
        for dp, dn, fn in os.walk(root):
            for f in fn:
                if f.endswith((".hpp", ".inl")):
                    try:
                        for i, line in enumerate(open(os.path.join(dp, f), encoding="utf-8-sig", errors="replace"), 1):
                            if any(t in line for t in texts):
                                sites.add((f, i))
                    except OSError:
                        pass
    return sites


def write_replay(pid, fxname, variant, trace_file, l, tags, n):
    d = os.path.join(tlc.CACHE, "replays")
    os.makedirs(d, exist_ok=True)
    path = os.path.join(d, "%s-%s-%d.json" % (pid, fxname, n))
    try:
        cmds = explore.replay_prefix(trace_file, l)
    except Exception as e:          # noqa
        cmds = []
    json.dump(dict(property=pid, fixture=fxname, variant=variant, commands=cmds, record=l, tags=tags), open(path, "w"), indent=1)
    return path


def behavioural(pid, tier, out, extra_tags=(), accept=None):
    """fold the shared campaign + model checking results into `out` for property pid"""
    camp = campaign(tier)
    findings = [f for f in load_findings() if f["property"] == pid and f["status"] == "open"]
    for e in camp["errors"]:
        out.machinery.append("%s %s/%s: %s" % (e["kind"], e["fixture"], e["variant"], e["msg"][:300]))
    steps = 0
    samples = []
    nviol = 0
    known_hits = {f["id"]: 0 for f in findings}
    for run in camp["runs"]:
        steps += run["checked"]
        for te in run["tlc_errors"]:
            out.machinery.append("TLC could not walk %s: %s" % (te["file"], te["msg"][-300:]))
        for c in run["crashes"]:
            # an executor that died (sanitizer report, abort, hang) is a C11 matter
            if pid == "C11":
                nviol += 1
                out.violations.append(dict(replay=write_replay(pid, run["fixture"], run["variant"], c["file"], c["records"] + 1, ["crash"], nviol),
                                           what="executor %s/%s died rc=%s: %s" % (run["fixture"], run["variant"], c["rc"], c["stderr"][-400:].replace("\n", " "))))
        # group diffs per record
        per_rec = {}
        for d in run["diffs"]:
            per_rec.setdefault((d["file"], d["l"]), []).append(d)
        for (f, l), ds in sorted(per_rec.items()):
            tags_here = {d["tag"] for d in ds}
            pprop, pdiffs = primary(run, ds)
            mine = [d for d in ds if is_monitor(d["tag"]) and monitor_owner(d) == pid]
            if pprop == pid:
                mine += pdiffs
            mine += [d for d in ds if d["tag"] in extra_tags and d not in mine]
            if accept:
                mine = [d for d in mine if accept(d, tags_here)]
            if not mine:
                continue
            # explained by an open finding?
            rest = []
            for d in mine:
                hit = None
                for fd in findings:
                    if d["tag"] in fd.get("tags", []) and not (tags_here & set(fd.get("unless_tags", []))):
                        if fd.get("assert_texts"):
                            sites = assertion_sites(fd["assert_texts"])
                            import re as _re
                            seen = set((m.group(1), int(m.group(2))) for m in _re.finditer(r'<<"([^"]+)", (\d+)>>', d["detail"][-1]))
                            if not seen or not seen <= sites:
                                continue
                        hit = fd
                        break
                if hit:
                    known_hits[hit["id"]] += 1
                else:
                    rest.append(d)
            if rest:
                nviol += 1
                if nviol <= 20:
                    out.violations.append(dict(
                        replay=write_replay(pid, run["fixture"], run["variant"], f, l, sorted({d["tag"] for d in rest}), nviol),
                        what="%s/%s record %d: %s" % (run["fixture"], run["variant"], l,
                                                      "; ".join("%s expected %s observed %s" % (d["tag"], d["detail"][0][:120], d["detail"][-1][:120]) for d in rest[:3]))))
        if len(samples) < 3 and run["files"]:
            try:
                with open(run["files"][0]) as fh:
                    for i, line in enumerate(fh):
                        if i == 5:
                            r = json.loads(line)
                            samples.append(dict(fixture=run["fixture"], call=r["a"], script_hooks=r["sc"]["hooks"],
                                                callbacks=[[e[0], e[1]] for e in r["ev"]][:12]))
                            break
            except Exception:       # noqa
                pass
    for fd in findings:
        extra = ""
        if fd.get("switch"):
            hits = sum(len(v) for run in camp["runs"] for k, v in run["notes"].items() if fd["id"] in k)
            extra = " (deviation switch %s exercised by %d steps of this run)" % (fd["switch"], hits)
        else:
            extra = " (witnessed %d times in this run)" % known_hits[fd["id"]]
        out.known.append("%s %s%s" % (fd["id"], fd["what"][:200], extra))
    # design level
    states = transitions = 0
    if pid in MC_PROPS:
        mcr = mc_results(tier)
        for mdl in mcr["models"]:
            states += mdl["stats"].get("distinct", 0)
            transitions += mdl["stats"].get("generated", 0)
            bad = [p for p in mdl["violated"] if p in MC_PROPS[pid]]
            if bad:
                nviol += 1
                out.violations.append(dict(replay="spec/Machine.tla", what="design-level: %s violated on model %s: %s"
                                           % (bad, mdl["fixture"], mdl["error"][:300].replace("\n", " "))))
            elif not mdl["ok"] and not mdl["violated"]:
                out.machinery.append("TLC failed on model %s: %s" % (mdl["fixture"], mdl["error"][:300]))
        out.coverage["mc_models"] = [dict(fixture=m["fixture"], states=m["stats"].get("distinct"), transitions=m["stats"].get("generated"),
                                          depth=m["stats"].get("depth"), exhausted=m.get("complete", True), properties=MC_PROPS[pid], secs=round(m["secs"], 1)) for m in mcr["models"]]
    out.coverage.update(dict(
        states=max(states, 1), transitions=max(transitions, 1),
        traces_validated_against_impl=sum(len(r["files"]) for r in camp["runs"]),
        implementation_steps_validated=steps,
        fixtures=sorted({r["fixture"] for r in camp["runs"]}), variants=sorted({r["variant"] for r in camp["runs"]}),
        samples=samples or [dict(note="no sample available")],
        unattributed_deviations=sum(1 for r in camp["runs"] for d in r["diffs"] if d["tag"] in UNATTRIBUTED),
        rule="random walks over the public API with scripted callbacks (seed %d); every recorded call judged by TLC against spec/Trace.tla" % SEED))
    out.assumptions += ["TLC and the TLA+ community modules are correct",
                        "the generated executor reports the library's state faithfully (private fields read through an access probe)",
                        "structures limited to the fixture family (<= 25 states); callbacks act through scripts of <= 3 hooks per call"]
    return camp


# ------------------------------------------------------------------------------------------
# C15 : feature combinations and header flavour

C15_SETS = {
    "quick": [("all-dev", gen.ALL_FEATURES, "dev"), ("none", [], "plain"), ("noplans", [f for f in gen.ALL_FEATURES if f != "PLANS"], "plain"),
              ("nohistory", [f for f in gen.ALL_FEATURES if f != "TRANSITION_HISTORY"], "plain"),
              ("noutility", [f for f in gen.ALL_FEATURES if f != "UTILITY_THEORY"], "plain"),
              ("loginterface", ["LOG_INTERFACE"], "plain11")],
    "thorough": [("all", gen.ALL_FEATURES, "plain"), ("all-dev", gen.ALL_FEATURES, "dev"), ("none", [], "plain"), ("none-dev", [], "dev"),
                 ("loginterface", ["LOG_INTERFACE"], "plain"), ("all11", gen.ALL_FEATURES, "plain11")]
                + [("no" + f.lower(), [g for g in gen.ALL_FEATURES if g != f], "plain") for f in gen.ALL_FEATURES]
                + [("only" + f.lower(), [f], "dev") for f in gen.ALL_FEATURES if f != "VERBOSE_DEBUG_LOG"]
                + [("payvoid", gen.ALL_FEATURES, "plain", dict(payload="void")), ("paybig", gen.ALL_FEATURES, "dev", dict(payload="big")),
                   ("payodd", [], "plain11", dict(payload="odd")), ("limit9", gen.ALL_FEATURES, "plain", dict(limit=9)),
                   ("limit9none", [], "dev", dict(limit=9)), ("taskroom", gen.ALL_FEATURES, "plain", dict(taskcap=40)), ("taskroombig", ["PLANS", "UTILITY_THEORY"], "dev", dict(taskcap=40, payload="big")),
                   ("bottomup", ["PLANS"], "plain", dict(order="BottomUp"))],
}
C15_SETS["quick"] += [("paybig", ["PLANS", "SERIALIZATION", "STRUCTURE_REPORT"], "plain", dict(payload="big")),
                      ("payvoid", gen.ALL_FEATURES, "plain11", dict(payload="void"))]
C15_FIXTURES = {"quick": ["comp", "ortho"], "thorough": ["comp", "ortho", "auto", "oroot", "wide"]}


def c15_campaign(tier, seed=SEED, log=print):
    """the SAME command lists (common feature subset: no plans, no utility requests, no serialization, no replay) on every
    build; each trace judged by the one specification (feature-dependent reports blanked according to the build)"""
    key = hashlib.sha256(("c15|%s|%s|%s|%d" % (build.repo_hash(), verif_hash(), tier, seed)).encode()).hexdigest()[:24]
    cdir = os.path.join(tlc.CACHE, "campaign", key)
    rfile = os.path.join(cdir, "result.json")
    if os.path.exists(rfile):
        return json.load(open(rfile))
    shutil.rmtree(cdir, ignore_errors=True)
    os.makedirs(cdir)
    result = dict(key=key, runs=[], errors=[])
    common = dict(plans=False, utility=False, serial=False, quiet=0.0, payload=False, logger=False)
    from concurrent.futures import ThreadPoolExecutor
    todo = []
    for fxname in C15_FIXTURES[tier]:
        base = fixture(fxname)
        for entry in C15_SETS[tier]:
            setname, feats, variant = entry[:3]
            over = entry[3] if len(entry) > 3 else {}
            fx = dict(base, name="%s_%s" % (fxname, setname.replace("-", "_")), config=dict(base.get("config", {}), features=list(feats), **over))
            todo.append((fxname, fx, feats, variant))

    def _build(item):
        try:
            return build.build(item[1], item[3])
        except RuntimeError as e:
            return e
    build.repo_hash()
    with ThreadPoolExecutor(max_workers=14) as pool:
        exes = list(pool.map(_build, todo))
    subsets = [("base", dict(plans=False, utility=False), set()),
               ("plans", dict(plans=True, utility=False, planheavy=0.3, cyclic=0.35, sameorigin=0.5), {"PLANS"}),
               ("utility", dict(plans=False, utility=True), {"UTILITY_THEORY"})]
    work = []
    for (fxname, fx, feats, variant), exe in zip(todo, exes):
        if isinstance(exe, RuntimeError):
            result["errors"].append(dict(kind="build", fixture=fx["name"], variant=variant, msg=str(exe)[:1500]))
            continue
        for sname, prof, needs in subsets:
            if needs <= set(feats):
                work.append((fxname, fx, feats, variant, exe, sname, dict(common, **prof)))

    def _run(item):
        fxname, fx, feats, variant, exe, sname, prof = item
        f = os.path.join(cdir, "%s-%s.ndjson" % (fx["name"], sname))
        n, crash = explore.random_walks(fx, exe, f, seed * 4099 + sum(map(ord, fxname + sname)), ((600 if sname == "plans" else 300) if tier == "quick" else 2000), profile=prof)
        files = [f]
        if sname == "plans" and not crash:
            f2 = os.path.join(cdir, "%s-%s-scenarios.ndjson" % (fx["name"], sname))
            n2, crash = explore.plan_scenarios(fx, exe, f2)
            files.append(f2)
        d, res = explore.validate(fx, files, dev=open_switches(), jobs=1)
        c = gen.cfg_of(fx)
        run = dict(fixture=fx["name"], variant=variant, features=list(feats), files=files, checked=0, diffs=[], crashes=[], tlc_errors=[], notes={}, subset=sname,
                   group="%s/%s/limit%d/%s%s" % (fxname, sname, c["limit"], c["order"], "/taskcap%d" % c["taskcap"] if sname == "plans" else ""), payload=c["payload"], limit=c["limit"], taskcap=c["taskcap"])
        if crash:
            run["crashes"].append(dict(file=f, rc=crash[0], stderr=crash[1][-800:], records=n))
        for r in res:
            run["checked"] += r["checked"]
            if r["error"]:
                run["tlc_errors"].append(dict(file=r["file"], msg=r["error"][-800:]))
            for dd in r["diffs"]:
                run["diffs"].append(dict(file=r["file"], l=dd["l"], tag=dd["tag"], call="", detail=[x[:400] for x in dd["detail"]]))
        shutil.rmtree(d, ignore_errors=True)
        # the callback sequence of the run (for the cross-build comparison)
        h = hashlib.sha256()
        for ff in files:
            with open(ff) as fh:
                for line in fh:
                    r = json.loads(line)
                    h.update(json.dumps([r["a"], [[e[0], e[1]] for e in r["ev"]], (r["post"] or {}).get("act") if isinstance(r["post"], dict) else None]).encode())
        run["behaviour_hash"] = h.hexdigest()
        log("c15 %s/%s/%s: %d steps, %d diffs" % (fx["name"], variant, sname, run["checked"], len([x for x in run["diffs"] if ".D10" not in x["tag"]])))
        return run
    with ThreadPoolExecutor(max_workers=10) as pool:
        result["runs"] = list(pool.map(_run, work))
    json.dump(result, open(rfile, "w"))
    return result
