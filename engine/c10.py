"""C10 (built-in generator part): same random choices whatever the storage held; a copy continues as the original.
The expected choice sequence comes from spec/Prng.tla (xoshiro256+ seeded with 0, float32(), four equal weights)."""
import json, os, shutil, subprocess
from . import tlc, build


def run():
    d = os.path.join(tlc.CACHE, "bin")
    os.makedirs(d, exist_ok=True)
    exe = os.path.join(d, "rngb-%s" % (build.repo_hash()[:12] + build.harness_hash()[:8]))
    if not os.path.exists(exe):
        p = subprocess.run(["g++", "-std=c++14", "-O1", "-w", "-I", os.path.join(build.REPO, "include"),
                            os.path.join(build.HARNESS, "components", "rng_builtin.cpp"), "-o", exe],
                           stdout=subprocess.PIPE, stderr=subprocess.STDOUT, universal_newlines=True)
        if p.returncode:
            raise RuntimeError("rng_builtin compile failed: " + p.stdout[-1500:])
    p = subprocess.run([exe], stdout=subprocess.PIPE, universal_newlines=True, timeout=60)
    recs = [json.loads(l) for l in p.stdout.splitlines()]
    sd = tlc.scratch("c10")
    tlc.stage_spec(sd)
    tf = os.path.join(sd, "rngb.ndjson")
    open(tf, "w").write(p.stdout)
    body = r'''EXTENDS Prng, IOUtils
T == ndJsonDeserialize(IOEnv.TRACE)
\* RNGT<float> on a 64-bit platform is xoshiro256+ seeded through splitmix64(0); next() is float32() of the low 32 bits;
\* with four sub-states of utility 1 the weighted draw picks 1 + floor(r * 4) = 1 + the two top bits of the low word.
\* One TLC step per draw: position k of the stream is compared with what every instance chose at that position
\* (the copy continues at the position where it was taken).
Choice(word) == (word[2] \div 16384) + 1
N == Len(T[1].seq) + Len(T[1].copy)
Init == r = 0 /\ ph = "draw" /\ st = SeedState(64, Zero(64)) /\ k = 1 /\ acc = <<>>
Step == /\ k <= N
        /\ LET nx == Next("plus", 64, st)  c == Choice(nx[2]) IN
           /\ \A i \in 1 .. Len(T) :
                LET rec == T[i]  n == Len(rec.seq) IN
                /\ IF k <= n THEN (IF rec.seq[k] = c THEN TRUE ELSE PrintT(<<"DIFF", i, "seq", rec.fill, k, c, rec.seq[k]>>))
                   ELSE /\ (IF k - n <= Len(rec.orig) THEN (IF rec.orig[k - n] = c THEN TRUE ELSE PrintT(<<"DIFF", i, "orig", rec.fill, k, c, rec.orig[k - n]>>)) ELSE TRUE)
                        /\ (IF rec.copy[k - n] = c THEN TRUE ELSE PrintT(<<"DIFF", i, "copy", rec.fill, k, c, rec.copy[k - n]>>))
           /\ PrintT(<<"OK", k>>)
           /\ st' = nx[1] /\ k' = k + 1 /\ UNCHANGED <<r, ph, acc>>
Spec == Init /\ [][Step]_pvars
'''
    open(os.path.join(sd, "MRNGB.tla"), "w").write("---- MODULE MRNGB ----\n" + body + "====\n")
    open(os.path.join(sd, "MRNGB.cfg"), "w").write("SPECIFICATION Spec\nCHECK_DEADLOCK FALSE\n")
    rc, out, secs = tlc.run_tlc(sd, "MRNGB", "MRNGB.cfg", env={"TRACE": tf}, workers=1, timeout=300)
    oks = tlc.printed(out, "OK")
    diffs = tlc.printed(out, "DIFF")
    shutil.rmtree(sd, ignore_errors=True)
    n = len(recs[0]["seq"]) + len(recs[0]["copy"]) if recs else 0
    return dict(records=recs, checked=len(oks), expected_steps=n, diffs=diffs, tail=out[-800:] if len(oks) != n else "")
