"""Command implementations behind bin/verif."""
import json, os, shutil, subprocess, sys, time
from . import checks, tlc, build, gen, explore

BEHAVIOURAL = {
    "C01": "model_checking", "C02": "model_checking", "C03": "model_checking", "C04": "model_checking",
    "C05": "model_checking", "C06": "model_checking", "C07": "model_checking", "C09": "model_checking", "C13": "model_checking",
    "C14": "model_checking", "C16": "model_checking", "C08": "model_checking",
    "C10": "exploration", "C11": "exploration", "C12": "model_checking",
}


def setup():
    ok = True
    for tool in (["java", "-version"], ["g++", "--version"], ["clang++", "--version"]):
        try:
            subprocess.run(tool, stdout=subprocess.DEVNULL, stderr=subprocess.DEVNULL, check=True)
        except Exception as e:      # noqa
            print("missing tool:", tool[0], e)
            ok = False
    if not os.path.exists("/opt/veriftools/tla/tla2tools.jar"):
        print("missing tla2tools.jar")
        ok = False
    os.makedirs(tlc.CACHE, exist_ok=True)
    print("setup", "ok" if ok else "FAILED")
    return 0 if ok else 1


def baseline():
    """the repository's own suite, hooks off"""
    repo = build.REPO
    b = os.path.join(repo, "_build")
    if not os.path.exists(os.path.join(b, "build.ninja")) and not os.path.exists(os.path.join(b, "Makefile")):
        r = subprocess.run(["cmake", "-G", "Ninja", "-S", repo, "-B", b, "-DCMAKE_BUILD_TYPE=RelWithDebInfo", "-DHFSM2_BUILD_TESTS=ON"])
        if r.returncode:
            return r.returncode
    r = subprocess.run(["cmake", "--build", b])
    if r.returncode:
        return r.returncode
    return subprocess.run(["ctest", "--test-dir", b, "-j8", "--timeout", "900"]).returncode


def check(pid, tier):
    out = checks.Outcome(pid, tier)
    if pid == "C10":
        return check_c10(out, tier)
    if pid == "C15":
        return check_c15(out, tier)
    if pid in BEHAVIOURAL:
        checks.behavioural(pid, tier, out)
        if pid == "C11":
            camp = checks.campaign(tier)
            out.coverage["evaluations"] = sum(r["checked"] for r in camp["runs"])
            out.coverage["distinct_nontrivial"] = len(camp["runs"])
            out.coverage["rule"] = ("every executor run of the campaign (plain, ASan+UBSan, assertion-hook builds) is an observation channel: a sanitizer report / abort, "
                                    "an assertion routed through the HFSM2_VERIF hook, or an allocation counted by the replaced global operator new during an API call "
                                    "(quiet episodes) is a violation; walks queue beyond the request-queue capacity and append tasks beyond the task capacity, "
                                    "and the post-state of rejected operations is compared with the specification")
        return out.finish(BEHAVIOURAL[pid])
    if pid == "C17":
        return check_c17(out, tier)
    if pid == "C18":
        return check_c18(out, tier)
    if pid == "C19":
        return check_c19(out, tier)
    if pid == "C20":
        return check_c20(out, tier)
    print("property %s is not claimed (see MANIFEST.json not_applicable)" % pid)
    return 2


def check_c17(out, tier):
    import random
    from . import c17
    rnd = random.Random(checks.SEED)
    exhaustive_to = 5 if tier == "quick" else 6
    shapes = c17.all_shapes(exhaustive_to) + c17.wide_deep_family()
    shapes += [c17.random_shape(rnd, rnd.choice([8, 16, 30, 40])) for _ in range(40 if tier == "quick" else 400)]
    metas = c17.evaluate(shapes)
    missing = [i for i, m in enumerate(metas) if m is None]
    if missing:
        out.machinery.append("TLC produced no metadata for %d shapes (first %s)" % (len(missing), shapes[missing[0]]))
        shapes = [s for i, s in enumerate(shapes) if metas[i] is not None]
        metas = [m for m in metas if m is not None]
    bad = c17.compile_units(shapes, metas)
    os.makedirs(os.path.join(tlc.CACHE, "replays"), exist_ok=True)
    for n, (u, rc, msg) in enumerate(bad[:10]):
        path = os.path.join(tlc.CACHE, "replays", "C17-%d.cpp" % n)
        open(path, "w").write(c17.cpp_unit(shapes[u:u + 150], metas[u:u + 150], u))
        out.violations.append(dict(replay=path, what="static_assert derived from spec/Structure.tla fails: " + msg[:300].replace("\n", " ")))
    distinct = len({json.dumps(s) for s in shapes})
    out.coverage.update(dict(
        evaluations=len(shapes), distinct_nontrivial=distinct, exhaustive=True,
        rule="every ordered tree with <= %d states x every labelling of its internal nodes with composite/orthogonal x headed/headless "
             "(exhaustive), plus wide (1..17) and deep (2..8) families and seeded random shapes of up to 40 states; per shape ~%d static_asserts "
             "(stateId, regionId, STATE/REGION/COMPO/ORTHO counts, ORTHO_UNITS, COMPO_PRONGS, REVERSE_DEPTH, SERIAL_BITS, TASK_CAPACITY) "
             "whose expected values are computed by TLC from spec/Structure.tla" % (exhaustive_to, 12),
        samples=[dict(shape=shapes[i], expected={k: v for k, v in metas[i].items() if k != "per_state"}) for i in (0, len(shapes) // 2, len(shapes) - 1)],
        static_asserts=sum(9 + 2 * m["states"] for m in metas)))
    out.assumptions += ["g++ evaluates static_asserts correctly", "TLC evaluates spec/Structure.tla correctly",
                        "identifier types up to 255 states are not exceeded (shapes <= 40 states)"]
    return out.finish("exploration")


def replay(path, intended=False):
    rp = json.load(open(path))
    fx = checks.fixture(rp["fixture"])
    exe = build.build(fx, rp.get("variant", "plain"))
    d = tlc.scratch("replay")
    tf = os.path.join(d, "replay.ndjson")
    ex = explore.Exec(exe, tf)
    n = 0
    for ln in rp["commands"]:
        first = ln.split()[0] if ln.split() else ""
        if first in ("hook", "sel", "rank", "util", "rng", "slot", "log", "fill", "quiet") or ln.startswith("#"):
            ex.send(ln)
        else:
            if ex.call(ln) is None:
                print("executor died:", ex.dead)
                break
            n += 1
    ex.close()
    dd, res = explore.validate(fx, [tf], dev=[] if intended else checks.open_switches(), jobs=1)
    bad = 0
    for r in res:
        if r["error"]:
            print("TLC error:", r["error"][-800:])
            bad += 1
        for df in r["diffs"]:
            print("record %d  %s  expected %s  observed %s" % (df["l"], df["tag"], df["detail"][0][:200], df["detail"][-1][:200]))
            bad += 1
    print("replayed %d calls, %d differences" % (n, bad))
    shutil.rmtree(d, ignore_errors=True)
    shutil.rmtree(dd, ignore_errors=True)
    return 1 if bad else 0


def selftest(args):
    """Demonstrates that the trace specification is bound to what the executor records: a recorded walk is accepted,
    and each of a set of single-field corruptions of that record (a post-state prong, a dropped callback event, a
    swapped pair of events, an altered scripted op, a logger line, a plan-log answer, a link of the task pool) is
    rejected at that record with the tag of the projection it belongs to.  Also prints, for the walk, how often each
    callback method / op kind / log kind occurred (vacuity check)."""
    import copy, random
    fx = checks.fixture(args[0] if args else "plancap")
    exe = build.build(fx, "plain")
    d = tlc.scratch("selftest")
    base = os.path.join(d, "base.ndjson")
    n, crash = explore.random_walks(fx, exe, base, 12345, 400)
    if crash:
        print("executor died:", crash)
        return 2
    recs = [json.loads(l) for l in open(base)]

    def judge(records, name):
        f = os.path.join(d, name + ".ndjson")
        with open(f, "w") as fh:
            for r in records:
                fh.write(json.dumps(r) + "\n")
        dd, res = explore.validate(fx, [f], dev=checks.open_switches(), jobs=1)
        shutil.rmtree(dd, ignore_errors=True)
        if res[0]["error"]:
            return None
        return [(x["l"], x["tag"]) for x in res[0]["diffs"] if not x["tag"].endswith((".D10", ".D13"))]
    ok = True
    clean = judge(recs, "base")
    print("unmodified walk of %d records: %s" % (len(recs), "accepted" if clean == [] else "REJECTED %s" % clean[:5]))
    ok &= clean == []

    def pick(pred):
        c = [i for i, r in enumerate(recs) if pred(r)]
        return c[len(c) // 2] if c else None
    cases = []
    i = pick(lambda r: isinstance(r["post"], dict) and r["post"]["on"] and r["a"][0] == "update")
    if i is not None:
        m = copy.deepcopy(recs); a = m[i]["post"]["act"]; a[-1] = (a[-1] % 2) + 1
        cases.append(("post-state prong changed", m, i + 1, {"act", "isA", "sub", "mon.wf.post", "strA", "hist"}))
    i = pick(lambda r: len(r["ev"]) >= 3 and not r["quiet"])
    if i is not None:
        m = copy.deepcopy(recs); del m[i]["ev"][1]
        cases.append(("one callback event dropped", m, i + 1, {"ev.all"}))
        m = copy.deepcopy(recs); m[i]["ev"][0], m[i]["ev"][1] = m[i]["ev"][1], m[i]["ev"][0]
        cases.append(("two callback events swapped", m, i + 1, {"ev.all"}))
    i = pick(lambda r: any(op[0] == "req" for h in r["sc"]["hooks"] for op in h[3]) and r["ev"] and not r["quiet"]
             and any(h[0] == e[0] and h[1] == e[1] for h in r["sc"]["hooks"] for e in r["ev"] if any(op[0] == "req" for op in h[3])))
    if i is not None:
        m = copy.deepcopy(recs)
        for h in m[i]["sc"]["hooks"]:
            h[3] = [op for op in h[3] if op[0] != "req"]
        cases.append(("scripted request removed from the record", m, i + 1, None))
    i = pick(lambda r: len(r["log"]) >= 2)
    if i is not None:
        m = copy.deepcopy(recs); del m[i]["log"][0]
        cases.append(("one logger line dropped", m, i + 1, {"log.order"}))
    i = pick(lambda r: any(x[0] == "a" for x in r["plog"]))
    if i is not None:
        m = copy.deepcopy(recs)
        for x in m[i]["plog"]:
            if x[0] == "a":
                x[1] = 1 - x[1]
        cases.append(("append() answer flipped", m, i + 1, {"plog"}))
    i = pick(lambda r: isinstance(r["post"], dict) and any(x != [0, 0] for x in r["post"]["tl"]))
    if i is not None:
        m = copy.deepcopy(recs)
        tl = m[i]["post"]["tl"]
        j = next(k for k, x in enumerate(tl) if x != [0, 0])
        tl[j] = [tl[j][1], tl[j][0]] if tl[j][0] != tl[j][1] else [tl[j][0] + 1, tl[j][1]]
        cases.append(("task link corrupted", m, i + 1, {"mon.plan.chain", "mon.plan.iter", "mon.plan.count", "mon.plan.free", "mon.plan.disjoint"}))
    for name, m, at, expect in cases:
        got = judge(m, "case")
        here = {t for (l, t) in (got or []) if l == at}
        good = got is not None and here and (expect is None or here & expect)
        print("%-45s record %4d: %s %s" % (name, at, "rejected" if good else "NOT REJECTED", sorted(here)[:6]))
        ok &= bool(good)
    from collections import Counter
    meth = Counter(e[1] for r in recs for e in r["ev"])
    ops = Counter(op[0] for r in recs for h in r["sc"]["hooks"] for op in h[3])
    logs = Counter(x[0] for r in recs for x in r["log"])
    print("callbacks seen:", dict(meth))
    print("scripted ops  :", dict(ops))
    print("logger lines  :", dict(logs))
    shutil.rmtree(d, ignore_errors=True)
    return 0 if ok else 1


def _save_vectors(name, lines):
    d = os.path.join(tlc.CACHE, "replays")
    os.makedirs(d, exist_ok=True)
    path = os.path.join(d, name)
    open(path, "w").write("\n".join(lines) + "\n")
    return path


def check_c18(out, tier):
    from . import c18
    lines, npairs, nseqs = c18.generate(tier, checks.SEED)
    path = _save_vectors("C18-vectors.txt", lines)
    total = 0
    for variant in ("plain", "asan"):
        r = c18.replay(lines, variant)
        if r["mismatches"]:
            out.violations.append(dict(replay=path, what="%s build: %d results differ from spec/Bits.tla, first: %s" % (variant, len(r["mismatches"]), r["mismatches"][0][:300])))
        elif r["rc"] != 0 or not r["done"]:
            out.violations.append(dict(replay=path, what="%s build: harness died rc=%s: %s" % (variant, r["rc"], r["stderr"][-400:].replace("\n", " "))))
        total += len(lines)
    out.coverage.update(dict(
        states=npairs, transitions=sum(1 for l in lines if l.startswith("A")), traces_validated_against_impl=2 * len(lines),
        evaluations=2 * len(lines), distinct_nontrivial=len(set(lines)),
        rule="bit arrays: every subset of capacities %s x every operation (single-index get/set/clear through the dynamic and the static/const "
             "paths, whole-array set/clear/empty/&=/!=, views at every unit offset and width incl. multiples of 8, two-step sequences exposing "
             "padding bits), sampled subsets for capacities %s; streams: start offsets 0..7 x widths 1..32 x 5 value patterns, plus seeded "
             "sequences of 2-3 writes; expected results computed by TLC from spec/Bits.tla, replayed on BitArrayT / BitWriteStreamT / "
             "BitReadStreamT in a plain and an ASan+UBSan build (exactly-sized heap objects)" % (c18.CAPS_EXHAUSTIVE[tier], c18.CAPS_SAMPLED[tier]),
        samples=[lines[0], lines[len(lines) // 2], lines[-1]], exhaustive=False, stream_cases=nseqs))
    out.assumptions += ["TLC evaluates spec/Bits.tla correctly", "AddressSanitizer/UBSan report every out-of-object access of the replayed cases"]
    return out.finish("model_checking")


def check_c19(out, tier):
    from . import c19
    lines, stats = c19.generate(tier, checks.SEED)
    path = _save_vectors("C19-vectors.txt", lines)
    for variant in ("plain", "asan", "assert"):
        r = c19.replay(lines, variant)
        if r["mismatches"]:
            out.violations.append(dict(replay=path, what="%s build: %d observations differ from spec/Containers.tla, first: %s" % (variant, len(r["mismatches"]), r["mismatches"][0][:300])))
        elif r["rc"] != 0 or not r["done"]:
            out.violations.append(dict(replay=path, what="%s build: harness died rc=%s: %s" % (variant, r["rc"], r["stderr"][-400:].replace("\n", " "))))
    out.coverage.update(dict(
        states=stats["pool_exhaustive"], transitions=sum(int(l.split()[2]) for l in lines), traces_validated_against_impl=3 * len(lines),
        evaluations=3 * len(lines), distinct_nontrivial=len(set(lines)),
        rule="task pool: EVERY valid insert / remove-k-th-live / clear sequence of the ideal pool up to depth %s per capacity (TLC enumeration), "
             "plus seeded random sequences of 20-120 operations for capacities 1-8; bounded array: seeded sequences of append / += / assign / clear; "
             "after every operation the success flag, count and live contents computed by TLC are compared, and every slot returned by the "
             "real pool must be free at the time" % (c19.EXHAUSTIVE[tier],),
        samples=[lines[0][:300], lines[len(lines) // 2][:300], lines[-1][:300]], exhaustive=True, breakdown=stats))
    out.assumptions += ["TLC evaluates spec/Containers.tla correctly"]
    return out.finish("model_checking")


def check_c20(out, tier):
    from . import c20
    r = c20.run(tier, checks.SEED)
    d = os.path.join(tlc.CACHE, "replays")
    os.makedirs(d, exist_ok=True)
    path = os.path.join(d, "C20-records.json")
    json.dump(r["records"], open(path, "w"))
    if r["assume_failed"]:
        out.machinery.append("a published anchor value does not hold in spec/Prng.tla (the reference itself is wrong)")
    if r["checked"] != len(r["records"]):
        out.machinery.append("TLC walked %d of %d records: %s" % (r["checked"], len(r["records"]), r["tlc_tail"][-300:]))
    for dfe in r["diffs"][:10]:
        out.violations.append(dict(replay=path, what="differs from the published algorithm: " + dfe[:300]))
    for rec in r["range_bad"][:5]:
        out.violations.append(dict(replay=path, what="float outside [0,1) for %s/%d seed %s" % (rec["kind"], rec["w"], rec["seed"])))
    for rec in r["conv_bad"][:5]:
        out.violations.append(dict(replay=path, what="uniform() is not the top mantissa bits of the integer output for %s/%d seed %s" % (rec["kind"], rec["w"], rec["seed"])))
    out.coverage.update(dict(
        evaluations=r["outputs"], distinct_nontrivial=len(r["records"]),
        rule="generators xoshiro256+ / xoshiro256** / xoshiro128+ / xoshiro128** (FloatRandomT / IntRandomT <8> and <4>), seeds {0, 1, 2^32-1, 2^64-1} "
             "and seeded random ones: the four seeded state words (non-zero), the first outputs, the state after jump() and outputs after it are compared "
             "word by word with spec/Prng.tla (written from the published algorithms, anchored by published splitmix64 / xoshiro values); float32()/float64() "
             "must equal the top 23/52 bits of the integer output scaled into [0,1)",
        samples=[dict(kind=x["kind"], w=x["w"], seed=x["seed"], first_outputs=x["out"][:2]) for x in r["records"][:3]],
        records=len(r["records"])))
    out.assumptions += ["TLC and the Bitwise community module are correct", "the published reference values quoted in engine/c20.py are correct"]
    return out.finish("exploration")


def check_c10(out, tier):
    from . import c10
    checks.behavioural("C10", tier, out)
    r = c10.run()
    findings = [f for f in checks.load_findings() if f["property"] == "C10" and f["status"] == "open"]
    d = os.path.join(tlc.CACHE, "replays")
    os.makedirs(d, exist_ok=True)
    path = os.path.join(d, "C10-builtin-rng.json")
    json.dump(r["records"], open(path, "w"))
    if r["checked"] != r["expected_steps"]:
        out.machinery.append("TLC walked %d of %d draws: %s" % (r["checked"], r["expected_steps"], r["tail"][-300:]))
    copy_hits = 0
    for df in r["diffs"]:
        if '"copy"' in df and any(f["id"] == "D11" for f in findings):
            copy_hits += 1
        else:
            out.violations.append(dict(replay=path, what="built-in generator: choice differs from the reference stream (record, part, fill, position, expected, observed): " + df[:200]))
    out.known = [k for k in out.known if not k.startswith("D11")]
    for f in findings:
        if f["id"] == "D11":
            out.known.append("D11 %s (witnessed by %d choices of copies in this run)" % (f["what"][:200], copy_hits))
    camp = checks.campaign(tier)
    out.coverage["evaluations"] = sum(r2["checked"] for r2 in camp["runs"]) + 5 * r["expected_steps"]
    out.coverage["distinct_nontrivial"] = sum(1 for r2 in camp["runs"] for f in r2["files"] if f.endswith("copy.ndjson")) + 5
    out.coverage["rule"] = ("(a) every episode of the campaign is constructed by placement-new into storage pre-filled with one of 0x00/0xFF/0xA5/0x01 and judged "
                            "against the one deterministic specification; (b) copy walks: an instance is copy-constructed at a random point and original and copy are "
                            "driven identically, the copy's full observable state must equal the source's; (c) built-in generator: five instances constructed in "
                            "differently filled storage, copied and the original destroyed; every random choice is compared with the stream TLC derives from "
                            "spec/Prng.tla")
    out.coverage["builtin_rng_records"] = r["records"]
    return out.finish("exploration")


# which optional feature a projection needs in order to be observable at all
C15_TAG_FEATURE = {"prev": "TRANSITION_HISTORY", "tt": "TRANSITION_HISTORY", "last": "TRANSITION_HISTORY", "prev.payload": "TRANSITION_HISTORY",
                   "plans": "PLANS", "pex": "PLANS", "succ": "PLANS", "fail": "PLANS", "hst": "PLANS", "sst": "PLANS", "tasks": "PLANS", "plog": "PLANS",
                   "ev.plan": "PLANS", "mon.plan.iter": "PLANS", "mon.plan.chain": "PLANS", "mon.plan.disjoint": "PLANS", "mon.plan.count": "PLANS",
                   "mon.plan.free": "PLANS", "hist": "STRUCTURE_REPORT", "strA": "STRUCTURE_REPORT", "mon.report": "STRUCTURE_REPORT",
                   "draws": "UTILITY_THEORY", "ev.report": "UTILITY_THEORY"}


def check_c15(out, tier):
    """C15 owns what DEPENDS on the build: a build that does not compile / dies / deviates from the specification while
    another build of the same program, able to observe the same thing, does not; and builds whose callback and
    configuration sequences differ from each other.  A deviation every build shows is the general properties' matter."""
    camp = checks.c15_campaign(tier)
    for e in camp["errors"]:
        out.violations.append(dict(replay="fixtures/", what="build %s/%s fails under this feature set: %s" % (e["fixture"], e["variant"], e["msg"][:300].replace("\n", " "))))
    steps, n = 0, 0
    groups = {}
    for run in camp["runs"]:
        steps += run["checked"]
        groups.setdefault(run["group"], []).append(run)
        for te in run["tlc_errors"]:
            out.machinery.append("TLC could not walk %s: %s" % (te["file"], te["msg"][-300:]))

    def observable(run, tag):
        f = C15_TAG_FEATURE.get(tag)
        if tag.startswith("log.") or tag == "lg":
            return bool({"LOG_INTERFACE", "VERBOSE_DEBUG_LOG"} & set(run["features"]))
        return f is None or f in run["features"]
    for gname, runs in groups.items():
        crashed = [r for r in runs if r["crashes"]]
        if crashed and len(crashed) < len(runs):
            for r in crashed[:3]:
                c = r["crashes"][0]
                n += 1
                out.violations.append(dict(replay=checks.write_replay("C15", r["fixture"], r["variant"], c["file"], c["records"] + 1, ["crash"], n),
                                           what="executor %s died where other builds of the same program did not: %s" % (r["fixture"], c["stderr"][-300:].replace("\n", " "))))
        keys = {id(r): {(d["l"], d["tag"]) for d in r["diffs"]} for r in runs}
        for r in runs:
            per = {}
            for d in r["diffs"]:
                if d["tag"].endswith((".D10", ".D13")) or d["tag"] in checks.UNATTRIBUTED:
                    continue
                others = [o for o in runs if o is not r and observable(o, d["tag"]) and o["checked"] >= d["l"]]
                if others and any((d["l"], d["tag"]) not in keys[id(o)] for o in others):
                    per.setdefault(d["l"], []).append(d)
            for l, ds in sorted(per.items())[:3]:
                n += 1
                out.violations.append(dict(replay=checks.write_replay("C15", r["fixture"], r["variant"], ds[0]["file"], l, sorted({d["tag"] for d in ds}), n),
                                           what="%s (features %s, payload %s, %s): record %d deviates from the specification while other builds of the same program do not: %s"
                                                % (r["fixture"], ",".join(r["features"]) or "none", r["payload"], r["variant"], l,
                                                   "; ".join("%s expected %s observed %s" % (d["tag"], d["detail"][0][:100], d["detail"][-1][:100]) for d in ds[:2]))))
        hashes = {r["behaviour_hash"] for r in runs}
        if len(hashes) > 1:
            out.violations.append(dict(replay="fixtures/%s.json" % gname.split("/")[0], what="the same program (%s) behaves differently across builds: " % gname +
                                       ", ".join("%s=%s" % (r["fixture"], r["behaviour_hash"][:8]) for r in runs)))
    out.coverage.update(dict(
        evaluations=steps, distinct_nontrivial=len(camp["runs"]),
        rule="the same seeded command lists (three subsets: without optional features, with plans, with utility requests - each on the builds that have the feature) on every build of the matrix {feature sets} x {single header, development "
             "headers} x {g++ -std=c++14, clang++ -std=c++11}; each trace validated by TLC against the one specification and the callback/configuration "
             "sequences of all builds of a fixture compared with each other",
        samples=[dict(build=r["fixture"], subset=r["subset"], features=r["features"], compiler_variant=r["variant"], steps=r["checked"]) for r in camp["runs"][:4]],
        builds=[dict(build=r["fixture"], subset=r["subset"], features=r["features"], variant=r["variant"], payload=r["payload"], substitution_limit=r["limit"],
                     task_capacity=r["taskcap"]) for r in camp["runs"]]))
    out.assumptions += ["the enumerated feature sets stand for all 2^7 combinations", "TLC and the executor as for the behavioural properties"]
    return out.finish("exploration")
