"""Command implementations behind bin/verif."""
import json, os, shutil, subprocess, sys, time
from . import checks, tlc, build, gen, explore

BEHAVIOURAL = {
    "C01": "model_checking", "C02": "model_checking", "C03": "model_checking", "C04": "model_checking",
    "C05": "model_checking", "C06": "model_checking", "C09": "model_checking", "C13": "model_checking",
    "C14": "model_checking", "C16": "model_checking", "C08": "model_checking",
}


def setup():
    ok = True
    for tool in (["java", "-version"], ["g++", "--version"], ["clang++", "--version"]):
        try:
            subprocess.run(tool, stdout=subprocess.DEVNULL, stderr=subprocess.DEVNULL, check=True)
        except Exception as e:      # noqa
            print("missing tool:", tool[0], e)
            ok = False
    if not os.path.exists("/opt/veriftools/tla/tla2tools.jar"):
        print("missing tla2tools.jar")
        ok = False
    os.makedirs(tlc.CACHE, exist_ok=True)
    print("setup", "ok" if ok else "FAILED")
    return 0 if ok else 1


def baseline():
    """the repository's own suite, hooks off"""
    repo = build.REPO
    b = os.path.join(repo, "_build")
    if not os.path.exists(os.path.join(b, "build.ninja")) and not os.path.exists(os.path.join(b, "Makefile")):
        r = subprocess.run(["cmake", "-G", "Ninja", "-S", repo, "-B", b, "-DCMAKE_BUILD_TYPE=RelWithDebInfo", "-DHFSM2_BUILD_TESTS=ON"])
        if r.returncode:
            return r.returncode
    r = subprocess.run(["cmake", "--build", b])
    if r.returncode:
        return r.returncode
    return subprocess.run(["ctest", "--test-dir", b, "-j8", "--timeout", "900"]).returncode


def check(pid, tier):
    out = checks.Outcome(pid, tier)
    if pid in BEHAVIOURAL:
        checks.behavioural(pid, tier, out)
        return out.finish(BEHAVIOURAL[pid])
    print("property %s is not claimed (see MANIFEST.json not_applicable)" % pid)
    return 2


def replay(path):
    rp = json.load(open(path))
    fx = checks.fixture(rp["fixture"])
    exe = build.build(fx, rp.get("variant", "plain"))
    d = tlc.scratch("replay")
    tf = os.path.join(d, "replay.ndjson")
    ex = explore.Exec(exe, tf)
    n = 0
    for ln in rp["commands"]:
        first = ln.split()[0] if ln.split() else ""
        if first in ("hook", "sel", "rank", "util", "rng", "slot", "log", "fill") or ln.startswith("#"):
            ex.send(ln)
        else:
            if ex.call(ln) is None:
                print("executor died:", ex.dead)
                break
            n += 1
    ex.close()
    dd, res = explore.validate(fx, [tf], dev=checks.open_switches(), jobs=1)
    bad = 0
    for r in res:
        if r["error"]:
            print("TLC error:", r["error"][-800:])
            bad += 1
        for df in r["diffs"]:
            print("record %d  %s  expected %s  observed %s" % (df["l"], df["tag"], df["detail"][0][:200], df["detail"][-1][:200]))
            bad += 1
    print("replayed %d calls, %d differences" % (n, bad))
    shutil.rmtree(d, ignore_errors=True)
    shutil.rmtree(dd, ignore_errors=True)
    return 1 if bad else 0


def selftest(args):
    print("selftest: see DESIGN.md section 8; not implemented yet")
    return 2
