"""C19: task pool and bounded arrays.  TLC (spec/Containers.tla) enumerates every valid operation sequence of the
ideal pool up to a depth bound (and evaluates seeded long random sequences), printing what must be observable
after each operation; harness/components/pool_main.cpp replays them on TaskListT / DynamicArrayT."""
import json, os, random, re, subprocess, shutil
from . import tlc, build

EXHAUSTIVE = {"quick": {1: 7, 2: 7, 3: 6, 4: 5}, "thorough": {1: 10, 2: 9, 3: 8, 4: 7, 5: 6}}


def tla_op(op):
    return "<<%s>>" % ", ".join(('"%s"' % x) if isinstance(x, str) else (("<<%s>>" % ", ".join(map(str, x))) if isinstance(x, list) else str(x)) for x in op)


def run_module(d, name, body):
    open(os.path.join(d, name + ".tla"), "w").write("---- MODULE %s ----\nEXTENDS Containers\n%s\n====\n" % (name, body))
    open(os.path.join(d, name + ".cfg"), "w").write("\n")
    rc, out, secs = tlc.run_tlc(d, name, name + ".cfg", workers=1, timeout=1800, heap="12g")
    return out


def fmt_pool(cap, ops, obs):
    o = " ".join("E" if op[0] == "E" else "C" if op[0] == "C" else "R %d" % op[1] for op in ops)
    e = " ".join("%d %d %d %s" % (ob[0], ob[1], len(ob[2]), " ".join(map(str, ob[2]))) for ob in obs)
    return "P %d %d %s | %s" % (cap, len(ops), o, e)


def generate(tier, seed):
    rnd = random.Random(seed)
    d = tlc.scratch("c19")
    tlc.stage_spec(d)
    lines = []
    stats = dict(pool_exhaustive=0, pool_random=0, array=0)
    for cap, depth in EXHAUSTIVE[tier].items():
        out = run_module(d, "MP_%d" % cap, 'ASSUME PrintT(<<"RUNS", ToJson(PoolRuns(%d, PoolInit, %d, <<>>, <<>>))>>)' % (cap, depth))
        got = tlc.printed(out, "RUNS")
        if not got:
            raise RuntimeError("TLC produced no pool runs for cap %d: %s" % (cap, out[-800:]))
        for run in tlc.unjson(got[0]):
            lines.append(fmt_pool(cap, run["ops"], run["obs"]))
            stats["pool_exhaustive"] += 1
    # long random sequences
    seqs = []
    for _ in range(60 if tier == "quick" else 600):
        cap = rnd.choice([1, 2, 3, 4, 5, 8])
        n = rnd.randint(20, 120)
        ops = []
        for _ in range(n):
            c = rnd.random()
            ops.append(["E"] if c < 0.5 else ["R", rnd.randint(1, 8)] if c < 0.95 else ["C"])
        seqs.append((cap, ops))
    for c0 in range(0, len(seqs), 100):
        part = seqs[c0:c0 + 100]
        body = "Seqs == <<%s>>\n" % ", ".join("<<%d, <<%s>>>>" % (cap, ", ".join(tla_op(o) for o in ops)) for cap, ops in part)
        body += 'ASSUME \\A i \\in DOMAIN Seqs : PrintT(<<"RUN", i, ToJson(PoolRun(Seqs[i][1], PoolInit, Seqs[i][2], 1, <<>>))>>)'
        out = run_module(d, "MR_%d" % c0, body)
        for item in tlc.printed(out, "RUN"):
            idx, js = item.split(",", 1)
            cap, ops = part[int(idx) - 1]
            lines.append(fmt_pool(cap, ops, tlc.unjson(js)))
            stats["pool_random"] += 1
    # arrays
    aseqs = []
    for _ in range(150 if tier == "quick" else 1500):
        cap = rnd.choice([1, 2, 3, 4, 5, 8])
        ops = []
        for _ in range(rnd.randint(3, 25)):
            c = rnd.random()
            if c < 0.5:
                ops.append(["E", rnd.randint(1, 99)])
            elif c < 0.6:
                ops.append(["C"])
            else:
                ops.append([rnd.choice(["P", "A"]), [rnd.randint(1, 99) for _ in range(rnd.randint(0, 8))]])
        aseqs.append((cap, ops))
    for c0 in range(0, len(aseqs), 150):
        part = aseqs[c0:c0 + 150]
        body = "Seqs == <<%s>>\n" % ", ".join("<<%d, <<%s>>>>" % (cap, ", ".join(tla_op(o) for o in ops)) for cap, ops in part)
        body += 'ASSUME \\A i \\in DOMAIN Seqs : PrintT(<<"ARUN", i, ToJson(ArrayRun(Seqs[i][1], <<>>, Seqs[i][2], 1, <<>>))>>)'
        out = run_module(d, "MA_%d" % c0, body)
        for item in tlc.printed(out, "ARUN"):
            idx, js = item.split(",", 1)
            cap, ops = part[int(idx) - 1]
            obs = tlc.unjson(js)
            o = " ".join("E %d" % op[1] if op[0] == "E" else "C" if op[0] == "C" else "%s %d %s" % (op[0], len(op[1]), " ".join(map(str, op[1]))) for op in ops)
            e = " ".join("%d %s" % (len(ob), " ".join(map(str, ob))) for ob in obs)
            lines.append("D %d %d %s | %s" % (cap, len(ops), o, e))
            stats["array"] += 1
    shutil.rmtree(d, ignore_errors=True)
    return lines, stats


def build_harness(variant):
    cc, flags, flavour = build.VARIANTS[variant]
    d = os.path.join(tlc.CACHE, "bin")
    os.makedirs(d, exist_ok=True)
    exe = os.path.join(d, "pool-%s-%s" % (variant, build.repo_hash()[:12] + build.harness_hash()[:8]))
    if not os.path.exists(exe):
        p = subprocess.run([cc] + flags + ["-I", os.path.join(build.REPO, "include"), os.path.join(build.HARNESS, "components", "pool_main.cpp"), "-o", exe],
                           stdout=subprocess.PIPE, stderr=subprocess.STDOUT, universal_newlines=True)
        if p.returncode:
            raise RuntimeError("pool harness compile failed: " + "\n".join(l for l in p.stdout.splitlines() if "error" in l)[:1500])
    return exe


def replay(lines, variant):
    exe = build_harness(variant)
    p = subprocess.run([exe], input="\n".join(lines) + "\n", stdout=subprocess.PIPE, stderr=subprocess.PIPE, universal_newlines=True, timeout=1800)
    mism = [l for l in p.stdout.splitlines() if l.startswith("MISMATCH")]
    done = [l for l in p.stdout.splitlines() if l.startswith("DONE")]
    return dict(rc=p.returncode, mismatches=mism, done=done[0] if done else "", stderr=p.stderr[-2500:])
