"""C18: bit arrays and bit streams.  TLC (spec/Bits.tla) computes the expected effect of every (state, operation)
pair / write sequence; harness/components/bits_main.cpp replays them on the real templates (also under ASan on
exactly-sized heap objects)."""
import itertools, json, os, random, re, subprocess
from . import tlc, build

CAPS_EXHAUSTIVE = {"quick": [1, 7, 8], "thorough": [1, 7, 8, 9]}
CAPS_SAMPLED = {"quick": [9, 15, 16, 17, 24, 33], "thorough": [15, 16, 17, 24, 33]}


def tla_set(xs):
    return "{" + ", ".join(map(str, xs)) + "}"


def array_module(name, pairs, others_by_cap):
    """pairs: list of (cap, src set)"""
    lines = ["---- MODULE %s ----" % name, "EXTENDS Bits",
             "Pairs == <<%s>>" % ", ".join("<<%d, %s>>" % (c, tla_set(sorted(s))) for c, s in pairs),
             "Others(cap) == CASE " + " [] ".join("cap = %d -> {%s}" % (c, ", ".join(tla_set(sorted(o)) for o in os_)) for c, os_ in others_by_cap.items()),
             'ASSUME \\A i \\in DOMAIN Pairs : PrintT(<<"CASES", ToJson({ ArrayCase(Pairs[i][1], Pairs[i][2], op) : op \\in ArrayOps(Pairs[i][1], Others(Pairs[i][1])) })>>)',
             "===="]
    return "\n".join(lines) + "\n"


def stream_module(name, seqs):
    """seqs: list of (start, [(width, value)])"""
    def bits(v, w):
        return "<<%s>>" % ", ".join(str((v >> i) & 1) for i in range(w))
    items = []
    for start, ws in seqs:
        items.append("<<%d, <<%s>>>>" % (start, ", ".join("<<%d, %s>>" % (w, bits(v, w)) for w, v in ws)))
    lines = ["---- MODULE %s ----" % name, "EXTENDS Bits", "Seqs == <<%s>>" % ", ".join(items),
             'ASSUME \\A i \\in DOMAIN Seqs : PrintT(<<"STREAM", i, ToJson(StreamCase(Seqs[i][1], Seqs[i][2], 128))>>)', "===="]
    return "\n".join(lines) + "\n"


def run_tlc_module(d, name, text):
    open(os.path.join(d, name + ".tla"), "w").write(text)
    open(os.path.join(d, name + ".cfg"), "w").write("\n")
    rc, out, secs = tlc.run_tlc(d, name, name + ".cfg", workers=1, timeout=1500, heap="8g")
    return out


def generate(tier, seed):
    rnd = random.Random(seed)
    d = tlc.scratch("c18")
    tlc.stage_spec(d)
    pairs, others = [], {}
    for cap in CAPS_EXHAUSTIVE[tier] + CAPS_SAMPLED[tier]:
        allidx = list(range(cap))
        others[cap] = [set(), set(allidx), set(i for i in allidx if i % 2 == 0), set(rnd.sample(allidx, max(1, cap // 3)))]
        if cap in CAPS_EXHAUSTIVE[tier]:
            for r in range(cap + 1):
                for comb in itertools.combinations(allidx, r):
                    pairs.append((cap, set(comb)))
        else:
            n = 6 if tier == "quick" else 40
            pairs += [(cap, set()), (cap, set(allidx))] + [(cap, set(rnd.sample(allidx, rnd.randint(1, cap)))) for _ in range(n)]
    lines = []
    ncases = 0
    chunk = 60 if tier == "quick" else 40
    for c0 in range(0, len(pairs), chunk):
        out = run_tlc_module(d, "MB_%d" % c0, array_module("MB_%d" % c0, pairs[c0:c0 + chunk], others))
        for item in tlc.printed(out, "CASES"):
            for case in tlc.unjson(item):
                op = case["op"]
                name, args = op[0], op[1:]
                flat = []
                for a in args:
                    flat += a if isinstance(a, list) else [a]
                lines.append("A %d %d %s %s %d %s | %d %s %d" % (case["cap"], len(case["src"]), " ".join(map(str, case["src"])), name,
                                                                len(flat), " ".join(map(str, flat)), len(case["dst"]), " ".join(map(str, case["dst"])), case["out"]))
                ncases += 1
    # streams
    patterns = lambda w: sorted({0, 1, (1 << w) - 1, 1 << (w - 1), int("10" * 16, 2) & ((1 << w) - 1)})
    seqs = []
    for start in range(8):
        for w in range(1, 33):
            for v in patterns(w):
                seqs.append((start, [(w, v)]))
    for _ in range(200 if tier == "quick" else 3000):
        start = rnd.randint(0, 7)
        ws, total = [], start
        for _ in range(rnd.randint(2, 3)):
            w = rnd.randint(1, 32)
            if total + w > 128:
                break
            ws.append((w, rnd.getrandbits(w)))
            total += w
        seqs.append((start, ws))
    for c0 in range(0, len(seqs), 500):
        part = seqs[c0:c0 + 500]
        out = run_tlc_module(d, "MS_%d" % c0, stream_module("MS_%d" % c0, part))
        got = {}
        for item in tlc.printed(out, "STREAM"):
            idx, js = item.split(",", 1)
            got[int(idx)] = tlc.unjson(js)
        for i, (start, ws) in enumerate(part, 1):
            g = got.get(i)
            if g is None:
                continue
            lines.append("S %d %d %s | %d %d %s" % (start, len(ws), " ".join("%d %d" % (w, v) for w, v in ws), g["cursor"], len(g["bytes"]), " ".join(map(str, g["bytes"]))))
            ncases += 1
    import shutil
    shutil.rmtree(d, ignore_errors=True)
    return lines, len(pairs), len(seqs)


def build_harness(variant):
    cc, flags, flavour = build.VARIANTS[variant]
    d = os.path.join(tlc.CACHE, "bin")
    os.makedirs(d, exist_ok=True)
    exe = os.path.join(d, "bits-%s-%s" % (variant, build.repo_hash()[:12] + build.harness_hash()[:8]))
    if not os.path.exists(exe):
        p = subprocess.run([cc] + flags + ["-I", os.path.join(build.REPO, "include"), os.path.join(build.HARNESS, "components", "bits_main.cpp"), "-o", exe],
                           stdout=subprocess.PIPE, stderr=subprocess.STDOUT, universal_newlines=True)
        if p.returncode:
            raise RuntimeError("bits harness compile failed: " + "\n".join(l for l in p.stdout.splitlines() if "error" in l)[:1500])
    return exe


def replay(lines, variant):
    exe = build_harness(variant)
    p = subprocess.run([exe], input="\n".join(lines) + "\n", stdout=subprocess.PIPE, stderr=subprocess.PIPE, universal_newlines=True, timeout=1200)
    mism = [l for l in p.stdout.splitlines() if l.startswith("MISMATCH")]
    done = [l for l in p.stdout.splitlines() if l.startswith("DONE")]
    return dict(rc=p.returncode, mismatches=mism, done=done[0] if done else "", stderr=p.stderr[-2500:])
