"""Design-level model checking: generate MC_<fixture>.tla/.cfg and run TLC breadth-first."""
import os, re, json
from fractions import Fraction
from . import gen, tlc

PROPS = ["P_Balanced", "P_Prescribed", "P_Guards", "P_Delivery", "P_Replay"]
INVS = ["WellFormedState", "WellFormedCallbacks", "RoundTrip", "ResumeNamed"]


def pair_menu(fx):
    """small menu for the save/load pair model: every configuration reachable by single requests, every saved buffer"""
    fl = gen.Flat(fx["shape"])
    return dict(kinds=["change", "resume"], dests=list(range(1, fl.n + 1)), hookKinds=[], hookDests=[], sched=[],
                hookStates=[], qmax=0, planops=False, serial=True)


def tla_set(xs):
    return "{" + ", ".join(xs) + "}"


def tla_str_set(xs):
    return tla_set('"%s"' % x for x in xs)


def tla_rat(f):
    f = Fraction(f)
    return "<<%d, %d>>" % (f.numerator, f.denominator)


def default_menu(fx, tier):
    fl = gen.Flat(fx["shape"])
    users = [s for s in range(1, fl.n + 1) if fl.st(s)["headed"]]
    util_strats = any(r["strat"] in ("Utilitarian", "Random") for r in fl.tab)
    kinds = ["change", "restart", "resume", "select"] + (["utilize", "randomize"] if util_strats or tier == "thorough" else [])
    m = dict(kinds=kinds, dests=list(range(1, fl.n + 1)), hookKinds=kinds, hookDests=list(range(1, fl.n + 1)), sched=[s for s in range(2, fl.n + 1) if fl.st(fl.st(s)["parent"])["kind"] == "C"][:2],
             hookStates=users, qmax=0, planops=False, serial=False)
    if tier == "quick":
        leaves = [s for s in range(2, fl.n + 1) if fl.st(s)["kind"] == "S"]
        m["hookStates"] = sorted(set(users[:2] + leaves[:1] + leaves[-1:]))
        m["hookKinds"] = ["change"]
        m["hookDests"] = sorted(set([leaves[-1]] + [s for s in range(2, fl.n + 1) if fl.st(s)["kind"] != "S"][:1]))
        m["sched"] = m["sched"][:1]
    m.update(fx.get("menus", {}).get(tier, fx.get("menus", {}).get("all", {})))
    return m


def envs(fx, tier="thorough"):
    fl = gen.Flat(fx["shape"])
    n = fl.n
    e1 = dict(sel=[1] * n, rank=[0] * n, util=[Fraction(1)] * n, rng=[Fraction(0)] * 24)
    sel2 = [max(1, fl.st(s)["width"]) for s in range(1, n + 1)]
    rank2 = [(s % 2) for s in range(1, n + 1)]
    util2 = [Fraction(1 + (s * 7) % 3, 1 + (s % 2)) for s in range(1, n + 1)]
    e2 = dict(sel=sel2, rank=rank2, util=util2, rng=[Fraction(1, 2)] * 24)
    out = [e2] if tier == "quick" else [e1, e2]
    if any(r["strat"] in ("Utilitarian", "Random") for r in fl.tab):
        # utility / rank / generator-output patterns: ties, zeros (never a whole top rank), ranks, outputs on and next to
        # interval boundaries of the cumulative walk
        import random as _r
        rnd = _r.Random(7)
        vals = [Fraction(0), Fraction(1, 2), Fraction(1), Fraction(2), Fraction(3)]
        rs = [Fraction(0), Fraction(1, 4), Fraction(1, 2), Fraction(3, 4), Fraction(99, 100), Fraction(1, 3), Fraction(2, 3)]
        for i in range(2 if tier == "quick" else 14):
            util = [rnd.choice(vals) for _ in range(n)]
            rank = [rnd.choice([0, 0, 1, 2]) for _ in range(n)]
            for s in range(1, n + 1):
                st = fl.st(s)
                par = fl.st(st["parent"]) if st["parent"] else None
                if st["kind"] != "S" or not st["headed"] or not (par and par["strat"] in ("Utilitarian", "Random")):
                    # regions always weigh something; a zero utility only on plain sub-states of utilitarian / random regions
                    # (a region that picks by select() or by its resumable mark could otherwise report 0 and leave its
                    # parent without a positive top-rank sum - outside the documented preconditions)
                    util[s - 1] = max(util[s - 1], Fraction(1, 2))
            for s in range(1, n + 1):
                st = fl.st(s)
                if st["kind"] == "C":      # a randomize request resolves every composite region below its target by weight
                    kids = st["kids"]
                    erank = lambda k: rank[k - 1] if fl.st(k)["headed"] else 0          # anonymous heads rank 0
                    top = max(erank(k) for k in kids)
                    tops = [k for k in kids if erank(k) == top]
                    if all(util[k - 1] == 0 for k in tops):
                        util[tops[-1] - 1] = Fraction(1)
            r = rs[i % len(rs)]
            out.append(dict(sel=sel2, rank=rank, util=util, rng=[r] * 24))       # every draw of a step sees the same output
    return out


def tla_env(e):
    return "[sel |-> <<%s>>, rank |-> <<%s>>, util |-> <<%s>>, rng |-> <<%s>>]" % (
        ", ".join(map(str, e["sel"])), ", ".join(map(str, e["rank"])),
        ", ".join(tla_rat(u) for u in e["util"]), ", ".join(tla_rat(u) for u in e["rng"]))


def stage(d, fx, tier, dev=(), props=PROPS, invs=INVS, menu=None):
    tlc.stage_spec(d)
    name = "MC_" + re.sub(r"\W", "_", fx["name"])
    m = menu or default_menu(fx, tier)
    menu_tla = ("[kinds |-> %s, dests |-> %s, hookKinds |-> %s, hookDests |-> %s, sched |-> %s, hookStates |-> %s, envs |-> %s, qmax |-> %d, planops |-> %s, serial |-> %s]"
                % (tla_str_set(m["kinds"]), tla_set(map(str, m["dests"])), tla_str_set(m["hookKinds"]), tla_set(map(str, m["hookDests"])), tla_set(map(str, m["sched"])),
                   tla_set(map(str, m["hookStates"])), tla_set(tla_env(e) for e in envs(fx, tier)), m["qmax"],
                   "TRUE" if m["planops"] else "FALSE", "TRUE" if m.get("serial") else "FALSE"))
    with open(os.path.join(d, name + ".tla"), "w") as f:
        f.write("---- MODULE %s ----\nEXTENDS Machine\n%sDevDef == {%s}\nMenuDef == %s\n====\n"
                % (name, gen.tla_defs(fx), ",".join('"%s"' % x for x in dev), menu_tla))
    with open(os.path.join(d, name + ".cfg"), "w") as f:
        f.write("CONSTANTS Shape <- ShapeDef\n Cfg <- CfgDef\n Dev <- DevDef\n Menu <- MenuDef\n"
                "SPECIFICATION Spec\nVIEW View\nCHECK_DEADLOCK FALSE\n")
        for i in invs:
            f.write("INVARIANT %s\n" % i)
        for p in props:
            f.write("PROPERTY %s\n" % p)
    return name, m


def run(fx, tier, dev=(), props=PROPS, invs=INVS, workers=16, timeout=1500, menu=None, heap="16g", budget=None):
    """budget (seconds): TLC stops the breadth-first search itself after that time; the result is then `ok` with
    complete=False if no violation was found in what it covered"""
    d = tlc.scratch("mc-" + fx["name"])
    name, m = stage(d, fx, tier, dev, props, invs, menu)
    rc, out, secs = tlc.run_tlc(d, name, name + ".cfg", workers=workers, timeout=timeout if not budget else budget + 600, heap=heap, stop_after=budget)
    with open(os.path.join(d, "tlc.out"), "w") as f:
        f.write(out)
    st = tlc.parse_stats(out)
    violated = re.findall(r"(?:Invariant|Action property|Temporal properties|property) (\w+) (?:is|was) violated", out)
    violated += re.findall(r"Action property (\w+) is violated", out)
    ok = "No error has been found" in out
    if not ok and budget and rc == 124 and "Error:" not in out and not violated:
        # TLC did not come back from a state with a huge fan-out in time for its own stopAfter; the outer timeout ended it.
        # What it covered is in its last progress line.
        pr = re.findall(r"Progress\(\d+\)[^\n]*?: ([\d,]+) states generated[^\n]*?, ([\d,]+) distinct states found[^\n]*?, ([\d,]+) states left on queue", out)
        if pr:
            g, dd, q = (int(x.replace(",", "")) for x in pr[-1])
            st.update(generated=g, distinct=dd, left_on_queue=q)
            ok = True
    complete = ok and st.get("left_on_queue", 0) == 0      # (with a time budget TLC may end with states still queued)
    return dict(dir=d, module=name, rc=rc, ok=ok, complete=complete, violated=sorted(set(violated)), stats=st, secs=secs, out=out, menu=m)
