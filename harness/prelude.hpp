// Common definitions for generated HFSM2 conformance executors.
// Included AFTER the hfsm2 header and BEFORE the generated FSM typedefs.
#pragma once
#include <cstdint>
#include <cstdio>
#include <cstdlib>
#include <cstring>
#include <string>
#include <vector>
#include <new>

namespace vf {

//------------------------------------------------------------------------------
// exact rational utility (int64 numerator / denominator, normalised)

inline int64_t gcd64(int64_t a, int64_t b) { if (a < 0) a = -a; if (b < 0) b = -b; while (b) { int64_t t = a % b; a = b; b = t; } return a; }

struct Rational {
	int64_t n = 0, d = 1;
	constexpr Rational() noexcept {}
	Rational(int64_t n_, int64_t d_) noexcept : n{n_}, d{d_} { norm(); }
	Rational(int v) noexcept : n{v}, d{1} {}
	Rational(float v) noexcept : n{(int64_t) (v * 1024.0f)}, d{1024} { norm(); }		// only used for literals 0.0f / 1.0f
	void norm() noexcept {
		if (n == 0) { d = 1; return; }
		if (d < 0) { n = -n; d = -d; }
		const int64_t g = gcd64(n, d); n /= g; d /= g;
	}
	friend Rational operator * (const Rational a, const Rational b) noexcept { return Rational{a.n * b.n, a.d * b.d}; }
	friend Rational operator + (const Rational a, const Rational b) noexcept { return Rational{a.n * b.d + b.n * a.d, a.d * b.d}; }
	friend Rational operator - (const Rational a, const Rational b) noexcept { return Rational{a.n * b.d - b.n * a.d, a.d * b.d}; }
	friend Rational operator / (const Rational a, const Rational b) noexcept { return Rational{a.n * b.d, a.d * b.n}; }
	Rational& operator -= (const Rational b) noexcept { *this = *this - b; return *this; }
	friend bool operator >= (const Rational a, const Rational b) noexcept { return a.n * b.d >= b.n * a.d; }
	friend bool operator <= (const Rational a, const Rational b) noexcept { return a.n * b.d <= b.n * a.d; }
	friend bool operator <  (const Rational a, const Rational b) noexcept { return a.n * b.d <  b.n * a.d; }
	friend bool operator >  (const Rational a, const Rational b) noexcept { return a.n * b.d >  b.n * a.d; }
	friend bool operator == (const Rational a, const Rational b) noexcept { return a.n == b.n && a.d == b.d; }
};

// the machine's utility type: exact rationals, or (fixture config utility = "float") the library's default float
#ifdef FX_FLOAT_UTILITY
using UtilT = float;
inline UtilT toUtil(const Rational& r) noexcept { return (float) r.n / (float) r.d; }
inline void utilPair(const UtilT v, long& n, long& d) noexcept { d = 16777216; n = (long) ((double) v * 16777216.0 + (v >= 0 ? 0.5 : -0.5)); }
#else
using UtilT = Rational;
inline UtilT toUtil(const Rational& r) noexcept { return r; }
inline void utilPair(const UtilT& v, long& n, long& d) noexcept { n = (long) v.n; d = (long) v.d; }
#endif

//------------------------------------------------------------------------------
// payload types: token t (1..) <-> value; 0 = no payload

struct PayInt   { using Type = int; static Type make(int t) { return t * 1000 + 7; } static int token(const Type& v) { return (v - 7) / 1000; } };

struct alignas(16) Big { unsigned char b[32]; };
struct PayBig   { using Type = Big;
	static Type make(int t) { Type v; for (int i = 0; i < 32; ++i) v.b[i] = (unsigned char) (t * 37 + i * 11 + 1); return v; }
	static int token(const Type& v) { for (int t = 1; t < 64; ++t) { Type w = make(t); if (!memcmp(&w, &v, sizeof v)) return t; } return -1; } };

struct Odd { unsigned char b[3]; };
struct PayOdd   { using Type = Odd;
	static Type make(int t) { Type v; for (int i = 0; i < 3; ++i) v.b[i] = (unsigned char) (t * 41 + i * 13 + 5); return v; }
	static int token(const Type& v) { for (int t = 1; t < 64; ++t) { Type w = make(t); if (!memcmp(&w, &v, sizeof v)) return t; } return -1; } };

//------------------------------------------------------------------------------

struct Probe;
struct Ctx { Probe* probe = nullptr; };

// scripted generator: hands out the numbers of the script of the call in progress, then 0
// (stateless, so that a copy of an instance - which shares its source's generator reference - behaves the same)
struct ScriptedRng {
	inline UtilT next() noexcept;
};
inline Probe*& currentProbe() { static Probe* p = nullptr; return p; }

// dynamic allocations (global operator new is replaced in main.inl)
inline long& allocCount() { static long n = 0; return n; }

// assertion / HFSM2_BREAK hits (routed here by the HFSM2_VERIF hook)
struct BreakLog { std::vector<std::pair<std::string, int>> hits; };
inline BreakLog& breakLog() { static BreakLog b; return b; }

}

extern "C" inline void hfsm2_verif_break(const char* file, int line) noexcept {
	const char* base = strrchr(file, '/');
	const long before = vf::allocCount();			// the handler's own bookkeeping is not the library's allocation
	vf::breakLog().hits.emplace_back(base ? base + 1 : file, line);
	vf::allocCount() = before;
}
