// Snapshot of the observable + private abstract state, and the command interpreter.
namespace fx {

using RootT = hfsm2::detail::R_<Config, FSM::Apex>;
using CoreT_ = hfsm2::detail::CoreT<FSM::Args>;

template <typename Tag, typename Tag::type Mem> struct Rob { friend typename Tag::type get(Tag) { return Mem; } };
struct CoreTag { using type = CoreT_ RootT::*; friend type get(CoreTag); };
template struct Rob<CoreTag, &RootT::_core>;
static CoreT_& coreOf(FSM::Instance& i) { return static_cast<RootT&>(i).*get(CoreTag{}); }

//------------------------------------------------------------------------------

static bool loggerOf(FSM::Instance& i);
static void requestedRegistry(std::string& o, void* instance);
static void statusCodes(std::string& o, void* instance) {
#ifdef HFSM2_ENABLE_PLANS
	auto& pd = coreOf(*static_cast<FSM::Instance*>(instance)).planData;
	o += '['; jarr(o, RC, [&](int r) { jint(o, (int) pd.headStatuses[r].result + (pd.headStatuses[r].outerTransition ? 3 : 0)); });
	o += ','; jarr(o, RC, [&](int r) { jint(o, (int) pd. subStatuses[r].result + (pd. subStatuses[r].outerTransition ? 3 : 0)); }); o += ']';
#else
	o += '['; jarr(o, RC, [&](int) { jint(o, 0); }); o += ','; jarr(o, RC, [&](int) { jint(o, 0); }); o += ']';
#endif
}
static int prong1(hfsm2::Prong p) { return p == hfsm2::INVALID_PRONG ? 0 : p + 1; }

template <int OC> struct OrthoDump {
	template <typename R> static void go(std::string& o, R& reg) {
		jarr(o, OC, [&](int x) {
			const auto& units = reg.orthoUnits[x];
			jarr(o, units.width, [&](int p) { jint(o, reg.orthoRequested.get((hfsm2::Short) (units.unit * 8 + p)) ? 1 : 0); }); });
	}
};
template <> struct OrthoDump<0> { template <typename R> static void go(std::string& o, R&) { o += "[]"; } };

struct ParentInfo { int parent[N]; int prong[N]; bool isCompo[N]; int compo[N]; int ortho[N]; int width[N]; int region[N]; };

static void requestedRegistry(std::string& o, void* instance) {
	auto& reg = coreOf(*static_cast<FSM::Instance*>(instance)).registry;
	constexpr int CC = FSM::Args::COMPO_COUNT, OC = FSM::Args::ORTHO_COUNT;
	o += '['; jarr(o, CC, [&](int c) { jint(o, prong1(reg.compoRequested[c])); });
	o += ','; jarr(o, CC, [&](int c) { jint(o, reg.compoRemains.get((hfsm2::Short) c) ? 1 : 0); });
	o += ','; OrthoDump<OC>::go(o, reg); o += ']';
}

static void snapshot(std::string& o, FSM::Instance& fsm) {
	CoreT_& core = coreOf(fsm);
	auto& reg = core.registry;
	constexpr int CC = FSM::Args::COMPO_COUNT, OC = FSM::Args::ORTHO_COUNT;
	o += "{\"act\":";  jarr(o, CC, [&](int c) { jint(o, prong1(reg.compoActive[c])); });
	o += ",\"res\":";  jarr(o, CC, [&](int c) { jint(o, prong1(reg.compoResumable[c])); });
	o += ",\"req\":";  jarr(o, CC, [&](int c) { jint(o, prong1(reg.compoRequested[c])); });
	o += ",\"rem\":";  jarr(o, CC, [&](int c) { jint(o, reg.compoRemains.get((hfsm2::Short) c) ? 1 : 0); });
	o += ",\"oreq\":"; OrthoDump<OC>::go(o, reg);
	o += ",\"q\":"; jtransitions(o, core.requests);
#ifdef HFSM2_ENABLE_TRANSITION_HISTORY
	o += ",\"prev\":"; jtransitions(o, fsm.previousTransitions());
	o += ",\"tt\":"; jarr(o, N, [&](int s) { const hfsm2::Short t = core.transitionTargets[s]; jint(o, t == hfsm2::INVALID_SHORT ? 0 : t + 1); });
	o += ",\"last\":"; jarr(o, N, [&](int s) {
		if (!fsm.isActive((hfsm2::StateID) 0)) { jint(o, 0); return; }
		const auto* t = fsm.lastTransitionTo((hfsm2::StateID) s);
		jint(o, t ? (long) (t - &fsm.previousTransitions()[0]) + 1 : 0); });
#else
	o += ",\"prev\":[],\"tt\":"; jarr(o, N, [&](int) { jint(o, 0); });
	o += ",\"last\":"; jarr(o, N, [&](int) { jint(o, 0); });
#endif
#ifdef HFSM2_ENABLE_PLANS
	auto& pd = core.planData;
	o += ",\"plans\":"; jarr(o, RC, [&](int r) {
		o += '['; int n = 0;
		auto pl = fsm.plan((hfsm2::RegionID) r);
		for (auto it = pl.begin(); it; ++it) {
			if (n++) o += ',';
			o += '['; jint(o, it->origin + 1); o += ','; jint(o, it->destination + 1); o += ",\""; o += kindName(it->type); o += "\",";
			jint(o, PayTok<PayPolicy>::of(*it)); o += ']';
		}
		o += ']'; });
	o += ",\"pex\":";  jarr(o, RC, [&](int r) { jint(o, pd.planExists.get((hfsm2::Short) r) ? 1 : 0); });
	o += ",\"succ\":"; jint(o, maskOf([&](int s) { return pd.tasksSuccesses.get((hfsm2::Short) s); }));
	o += ",\"fail\":"; jint(o, maskOf([&](int s) { return pd.tasksFailures.get((hfsm2::Short) s); }));
	o += ",\"hst\":";  jarr(o, RC, [&](int r) { o += '['; jint(o, (int) pd.headStatuses[r].result); o += ','; jint(o, pd.headStatuses[r].outerTransition); o += ']'; });
	o += ",\"sst\":";  jarr(o, RC, [&](int r) { o += '['; jint(o, (int) pd.subStatuses[r].result); o += ','; jint(o, pd.subStatuses[r].outerTransition); o += ']'; });
	o += ",\"tasks\":"; jint(o, pd.tasks.count());
	// the raw storage behind the plans: region bounds, per-slot links and the slots themselves (0 = INVALID)
	constexpr long TC = FSM::Args::TASK_CAPACITY;
	auto idx1 = [](hfsm2::Long v) -> long { return v == hfsm2::INVALID_LONG ? 0 : (v < 100000 ? (long) v + 1 : 100000); };
	o += ",\"tb\":"; jarr(o, RC, [&](int r) { o += '['; jint(o, idx1(pd.taskBounds[r].first)); o += ','; jint(o, idx1(pd.taskBounds[r].last)); o += ']'; });
	o += ",\"tl\":"; jarr(o, (int) TC, [&](int i) { o += '['; jint(o, idx1(pd.taskLinks[i].prev)); o += ','; jint(o, idx1(pd.taskLinks[i].next)); o += ']'; });
	// slot contents: only slots that some plan reaches are read (TaskListT::operator[] verifies the pool's structure in
	// assertion builds, which is not meant to hold for a cleared, empty pool)
	bool reached[TC > 0 ? TC : 1] = {};
	for (int r = 0; r < RC; ++r) {
		long steps = 0;
		for (hfsm2::Long i = pd.taskBounds[r].first; i < TC && steps <= TC; i = pd.taskLinks[i].next, ++steps) reached[i] = true;
	}
	o += ",\"ts\":"; jarr(o, (int) TC, [&](int i) {
		if (!reached[i]) { o += "[0,0,\"none\",0]"; return; }
		const auto& t = pd.tasks[(hfsm2::Long) i];
		if ((unsigned) t.type >= (unsigned) hfsm2::TransitionType::COUNT || t.origin >= N || t.destination >= N) { o += "[0,0,\"none\",0]"; return; }
		jtask(o, t); });
#else
	o += ",\"plans\":"; jarr(o, RC, [&](int) { o += "[]"; });
	o += ",\"pex\":";  jarr(o, RC, [&](int) { jint(o, 0); });
	o += ",\"succ\":0";
	o += ",\"fail\":0";
	o += ",\"hst\":";  jarr(o, RC, [&](int) { o += "[0,0]"; });
	o += ",\"sst\":";  jarr(o, RC, [&](int) { o += "[0,0]"; });
	o += ",\"tasks\":0";
	o += ",\"tb\":"; jarr(o, RC, [&](int) { o += "[0,0]"; });
	o += ",\"tl\":[],\"ts\":[]";
#endif
#ifdef HFSM2_ENABLE_STRUCTURE_REPORT
	o += ",\"hist\":"; jarr(o, N, [&](int s) { jint(o, fsm.activityHistory()[s]); });
	o += ",\"strA\":"; jint(o, maskOf([&](int s) { return fsm.structure()[s].isActive; }));
#else
	o += ",\"hist\":"; jarr(o, N, [&](int) { jint(o, 0); });
	o += ",\"strA\":-1";
#endif
	// the public view
	o += ",\"isA\":"; jint(o, maskOf([&](int s) { return fsm.isActive   ((hfsm2::StateID) s); }));
	o += ",\"isR\":"; jint(o, maskOf([&](int s) { return fsm.isResumable((hfsm2::StateID) s); }));
	o += ",\"isS\":"; jint(o, maskOf([&](int s) { return fsm.isScheduled((hfsm2::StateID) s); }));
	o += ",\"sub\":"; jarr(o, compoHeadCount, [&](int i) { jint(o, prong1(fsm.activeSubState((hfsm2::StateID) compoHeads[i]))); });
	o += ",\"pe\":";  jint(o, maskOf([&](int s) { return fsm.isPendingEnter ((hfsm2::StateID) s); }));
	o += ",\"px\":";  jint(o, maskOf([&](int s) { return fsm.isPendingExit  ((hfsm2::StateID) s); }));
	o += ",\"pc\":";  jint(o, maskOf([&](int s) { return fsm.isPendingChange((hfsm2::StateID) s); }));
	o += ",\"on\":";  o += fsm.isActive((hfsm2::StateID) 0) ? "true" : "false";
	o += ",\"lg\":";  jint(o, loggerOf(fsm) ? 1 : 0);
	o += '}';
}

//------------------------------------------------------------------------------

static std::vector<std::string> split(const std::string& line, char sep = ' ') {
	std::vector<std::string> out; std::string cur;
	for (char ch : line) { if (ch == sep) { if (!cur.empty()) out.push_back(cur); cur.clear(); } else cur += ch; }
	if (!cur.empty()) out.push_back(cur);
	return out;
}

static void jstr(std::string& o, const std::string& s) { o += '"'; o += s; o += '"'; }

static void scriptJson(std::string& o, const Script& sc) {
	o += "{\"hooks\":["; bool first = true;
	for (const Hook& h : sc.hooks) {
		if (!first) o += ','; first = false;
		o += '['; jint(o, h.s); o += ','; jstr(o, h.me); o += ','; jint(o, h.n); o += ",[";
		bool f2 = true;
		for (const Op& op : h.ops) {
			if (!f2) o += ','; f2 = false;
			o += '['; jstr(o, op.t);
			if (op.t == "req")              { o += ','; jstr(o, op.k); o += ','; jint(o, op.a[0]); o += ','; jint(o, op.a[1]); }
			else if (op.t == "succeed" || op.t == "fail") { o += ','; jint(o, op.a[0]); }
			else if (op.t == "plan_append") { o += ','; jint(o, op.a[0]); o += ','; jint(o, op.a[1]); o += ','; jint(o, op.a[2]); o += ','; jstr(o, op.k); o += ','; jint(o, op.a[3]); }
			else if (op.t == "plan_clear")  { o += ','; jint(o, op.a[0]); }
			else if (op.t == "plan_remove" || op.t == "plan_sweep") { o += ','; jint(o, op.a[0]); o += ','; jint(o, op.a[1]); }
			o += ']';
		}
		o += "]]";
	}
	o += "],\"sel\":";  jarr(o, N, [&](int s) { jint(o, sc.sel[s]); });
	o += ",\"rank\":";  jarr(o, N, [&](int s) { jint(o, sc.rank[s]); });
	o += ",\"util\":";  jarr(o, N, [&](int s) { o += '['; jint(o, sc.util[s].n); o += ','; jint(o, sc.util[s].d); o += ']'; });
	o += ",\"rng\":";   jarr(o, (int) sc.rng.size(), [&](int i) { o += '['; jint(o, sc.rng[i].n); o += ','; jint(o, sc.rng[i].d); o += ']'; });
	o += '}';
}

// op syntax:  req:kind:dest:payload | cancel | succeed:s | fail:s | consume | plan_append:r:o:d:kind:p | plan_clear:r | plan_remove:r:i
static Op parseOp(const std::string& tok) {
	const auto f = split(tok, ':'); Op op; op.t = f[0];
	if (op.t == "req") { op.k = f[1]; op.a[0] = atoi(f[2].c_str()); op.a[1] = atoi(f[3].c_str()); }
	else if (op.t == "succeed" || op.t == "fail" || op.t == "plan_clear") op.a[0] = atoi(f[1].c_str());
	else if (op.t == "plan_append") { op.a[0] = atoi(f[1].c_str()); op.a[1] = atoi(f[2].c_str()); op.a[2] = atoi(f[3].c_str()); op.k = f[4]; op.a[3] = atoi(f[5].c_str()); }
	else if (op.t == "plan_remove" || op.t == "plan_sweep") { op.a[0] = atoi(f[1].c_str()); op.a[1] = atoi(f[2].c_str()); }
	return op;
}

//------------------------------------------------------------------------------

#ifdef HFSM2_ENABLE_LOG_INTERFACE
// the logger: appends what it is told to the probe of the instance that is talking (its context)
struct VLogger : Config::LoggerInterface {
	using Ctx_ = vf::Ctx*;
	static void item(Probe& p, const char* what) { if (!p.log.empty()) p.log += ','; p.log += "[\""; p.log += what; p.log += '"'; }
	static long sid(hfsm2::StateID s) { return s == hfsm2::INVALID_STATE_ID ? 0 : (long) s + 1; }
	void recordMethod(const Ctx_& c, const hfsm2::StateID origin, const hfsm2::Method method) override {
		Probe& p = *c->probe; if (p.quiet) return;
		item(p, "m"); p.log += ','; jint(p.log, sid(origin)); p.log += ",\""; p.log += (unsigned) method < 18 ? kMethodNames[(unsigned) method] : "?"; p.log += "\"]"; }
	void recordTransition(const Ctx_& c, const hfsm2::StateID origin, const hfsm2::TransitionType type, const hfsm2::StateID target) override {
		Probe& p = *c->probe; if (p.quiet) return;
		item(p, "t"); p.log += ','; jint(p.log, sid(origin)); p.log += ",\""; p.log += kindName(type); p.log += "\","; jint(p.log, sid(target)); p.log += ']'; }
#ifdef HFSM2_ENABLE_PLANS
	void recordTaskStatus(const Ctx_& c, const hfsm2::StateID region, const hfsm2::StateID origin, const hfsm2::StatusEvent event) override {
		Probe& p = *c->probe; if (p.quiet) return;
		item(p, "ts"); p.log += ','; jint(p.log, sid(region)); p.log += ','; jint(p.log, sid(origin)); p.log += event == hfsm2::StatusEvent::SUCCEEDED ? ",\"succeeded\"]" : ",\"failed\"]"; }
	void recordPlanStatus(const Ctx_& c, const hfsm2::StateID region, const hfsm2::StatusEvent event) override {
		Probe& p = *c->probe; if (p.quiet) return;
		item(p, "ps"); p.log += ','; jint(p.log, sid(region)); p.log += event == hfsm2::StatusEvent::SUCCEEDED ? ",\"succeeded\"]" : ",\"failed\"]"; }
#endif
	void recordCancelledPending(const Ctx_& c, const hfsm2::StateID origin) override {
		Probe& p = *c->probe; if (p.quiet) return;
		item(p, "cp"); p.log += ','; jint(p.log, sid(origin)); p.log += ']'; }
	void recordSelectResolution(const Ctx_& c, const hfsm2::StateID head, const hfsm2::Prong prong) override {
		Probe& p = *c->probe; if (p.quiet) return;
		item(p, "sel"); p.log += ','; jint(p.log, sid(head)); p.log += ','; jint(p.log, prong1(prong)); p.log += ']'; }
#ifdef HFSM2_ENABLE_UTILITY_THEORY
	static void jrat(std::string& o, const vf::UtilT& r) { long n, d; vf::utilPair(r, n, d); o += '['; jint(o, n); o += ','; jint(o, d); o += ']'; }
	void recordUtilityResolution(const Ctx_& c, const hfsm2::StateID head, const hfsm2::Prong prong, const vf::UtilT utility) override {
		Probe& p = *c->probe; if (p.quiet) return;
		item(p, "ut"); p.log += ','; jint(p.log, sid(head)); p.log += ','; jint(p.log, prong1(prong)); p.log += ','; jrat(p.log, utility); p.log += ']'; }
	void recordRandomResolution(const Ctx_& c, const hfsm2::StateID head, const hfsm2::Prong prong, const vf::UtilT utility) override {
		Probe& p = *c->probe; if (p.quiet) return;
		item(p, "rn"); p.log += ','; jint(p.log, sid(head)); p.log += ','; jint(p.log, prong1(prong)); p.log += ','; jrat(p.log, utility); p.log += ']'; }
#endif
};
static VLogger theLogger;
static bool loggerOf(FSM::Instance& i) { return coreOf(i).logger != nullptr; }
#else
static bool loggerOf(FSM::Instance&) { return false; }
#endif

struct Slot {
	alignas(64) unsigned char storage[sizeof(FSM::Instance) + 64];
	FSM::Instance* fsm = nullptr;
	vf::Ctx ctx;
	Probe probe;
	std::string buf;			// JSON array body: bytes written by the last save()
	int ret = -1;				// return value of the last replay call (0/1), -1 otherwise
	std::string lastSnap;		// observed state after the previous call ("pre" of the next)
	long seq = 0;
};

static std::string blankSnapshot;		// state of a never-activated instance

template <typename F>
static void apiCall(Slot& sl, int slotId, const std::string& label, bool logOn, F&& f) {
	Probe& p = sl.probe;
	p.resetCall();
	vf::currentProbe() = &p;
	sl.buf.clear(); sl.ret = -1;
	const size_t breaksBefore = vf::breakLog().hits.size();
	std::string scj; scriptJson(scj, p.sc);
	const long allocsBefore = vf::allocCount();
	f();
	const long allocs = vf::allocCount() - allocsBefore;
	std::string post;
	if (sl.fsm) snapshot(post, *sl.fsm); else post = "0";
	if (logOn) {
		std::string o = "{\"i\":"; jint(o, slotId); o += ",\"n\":"; jint(o, ++sl.seq);
		o += ",\"a\":"; o += label;
		o += ",\"sc\":"; o += scj;
		o += ",\"ev\":["; o += p.ev; o += "]";
		o += ",\"post\":"; o += post;
		o += ",\"draws\":"; jint(o, p.draws);
		o += ",\"plog\":["; o += p.plog; o += "]";
		o += ",\"log\":["; o += p.log; o += "]";
		o += ",\"quiet\":"; o += p.quiet ? "true" : "false"; o += ",\"allocs\":"; jint(o, p.quiet ? allocs : 0);
		o += ",\"size\":"; jint(o, (long) sizeof(FSM::Instance));
		o += ",\"buf\":["; o += sl.buf; o += "],\"ret\":"; jint(o, sl.ret);
		o += ",\"badThis\":"; jarr(o, (int) p.badThis.size(), [&](int i) { jint(o, p.badThis[i]); });
		o += ",\"badOrigin\":"; jarr(o, (int) p.badOrigin.size(), [&](int i) { jint(o, p.badOrigin[i]); });
		o += ",\"asserts\":["; { auto& h = vf::breakLog().hits; for (size_t i = breaksBefore; i < h.size(); ++i) { if (i > breaksBefore) o += ','; o += "[\""; o += h[i].first; o += "\","; jint(o, h[i].second); o += ']'; } }
		o += "]}\n";
		fputs(o.c_str(), stdout);
	} else ++sl.seq;
	sl.lastSnap = post;
	p.sc.reset();
}

template <typename TPolicy> struct ImmWith {
	template <typename F> static void go(F& fsm, int k, hfsm2::StateID d, int p) {
		const typename TPolicy::Type v = TPolicy::make(p);
		switch (k) { case 0: fsm.immediateChangeWith(d, v); break; case 1: fsm.immediateRestartWith(d, v); break; case 2: fsm.immediateResumeWith(d, v); break; case 3: fsm.immediateSelectWith(d, v); break;
#ifdef HFSM2_ENABLE_UTILITY_THEORY
			case 4: fsm.immediateUtilizeWith(d, v); break; case 5: fsm.immediateRandomizeWith(d, v); break;
#endif
			default: break; }
	}
};
template <> struct ImmWith<void> { template <typename F> static void go(F&, int, hfsm2::StateID, int) {} };

static void doImmediate(FSM::Instance& fsm, int k, int d1, int p) {
	const hfsm2::StateID d = (hfsm2::StateID) (d1 - 1);
	if (p != 0) { ImmWith<PayPolicy>::go(fsm, k, d, p); return; }
	switch (k) { case 0: fsm.immediateChangeTo(d); break; case 1: fsm.immediateRestart(d); break; case 2: fsm.immediateResume(d); break; case 3: fsm.immediateSelect(d); break;
#ifdef HFSM2_ENABLE_UTILITY_THEORY
		case 4: fsm.immediateUtilize(d); break; case 5: fsm.immediateRandomize(d); break;
#endif
		default: break; }
}

template <typename TPolicy> struct MakeT {
	static M::Transition go(int o, int d, int k, int p) {
		const hfsm2::StateID org = o == 0 ? hfsm2::INVALID_STATE_ID : (hfsm2::StateID) (o - 1);
		if (p != 0) return M::Transition{org, (hfsm2::StateID) (d - 1), kindType(k), TPolicy::make(p)};
		return M::Transition{org, (hfsm2::StateID) (d - 1), kindType(k)};
	}
};
template <> struct MakeT<void> {
	static M::Transition go(int o, int d, int k, int) {
		const hfsm2::StateID org = o == 0 ? hfsm2::INVALID_STATE_ID : (hfsm2::StateID) (o - 1);
		return M::Transition{org, (hfsm2::StateID) (d - 1), kindType(k)};
	}
};
static M::Transition makeTransition(int o, int d, int k, int p) { return MakeT<PayPolicy>::go(o, d, k, p); }

#if defined(FX_MANUAL) && defined(HFSM2_ENABLE_TRANSITION_HISTORY)
static bool doReplayEnter(FSM::Instance& fsm, const M::Transition* ts, hfsm2::Short n) { return fsm.replayEnter(ts, n); }
#else
static bool doReplayEnter(FSM::Instance&, const M::Transition*, hfsm2::Short) { fprintf(stderr, "replayEnter unavailable\n"); exit(3); }
#endif

#ifdef FX_MANUAL
static void manualEnter(FSM::Instance& fsm) { fsm.enter(); }
static void manualExit (FSM::Instance& fsm) { fsm.exit(); }
#else
static void manualEnter(FSM::Instance&) { fprintf(stderr, "enter on automatic machine\n"); exit(3); }
static void manualExit (FSM::Instance&) { fprintf(stderr, "exit on automatic machine\n"); exit(3); }
#endif

static std::string labelOf(const std::vector<std::string>& t) {
	// ["name", arg, ...] : numbers stay numbers, everything else is a string
	std::string o = "[";
	for (size_t i = 0; i < t.size(); ++i) {
		if (i) o += ',';
		bool num = !t[i].empty(); for (char ch : t[i]) if (!(ch >= '0' && ch <= '9') && ch != '-') num = false;
		if (num) o += t[i]; else jstr(o, t[i]);
	}
	return o + "]";
}

static int run() {
	compoHeadCount = 0; for (int i = 0; i < N; ++i) if (kCompoHead[i]) compoHeads[compoHeadCount++] = i;
	static Slot slots[4];
	int cur = 0; bool logOn = true;
	unsigned char fill = 0;
	for (Slot& s : slots) { s.probe.sc.reset(); }
	std::string line;
	while (std::getline(std::cin, line)) {
		const auto t = split(line);
		if (t.empty() || t[0][0] == '#') continue;
		Slot& sl = slots[cur];
		const std::string& c = t[0];
		auto I = [&](size_t i) { return atoi(t[i].c_str()); };
		if (c == "slot")       { cur = I(1); }
		else if (c == "log")   { logOn = I(1) != 0; }
		else if (c == "fill")  { fill = (unsigned char) I(1); }
		else if (c == "quiet") { for (Slot& q : slots) q.probe.quiet = I(1) != 0; }
		else if (c == "hook")  { Hook h; h.s = I(1); h.me = t[2]; h.n = I(3); for (size_t i = 4; i < t.size(); ++i) h.ops.push_back(parseOp(t[i])); sl.probe.sc.hooks.push_back(h); }
		else if (c == "sel")   { sl.probe.sc.sel[I(1) - 1] = I(2); }
		else if (c == "rank")  { sl.probe.sc.rank[I(1) - 1] = I(2); }
		else if (c == "util")  { sl.probe.sc.util[I(1) - 1] = Rational{I(2), I(3)}; }
		else if (c == "rng")   { for (size_t i = 1; i + 1 < t.size(); i += 2) sl.probe.sc.rng.push_back(Rational{I(i), I(i + 1)}); }
		else if (c == "new") {
			if (sl.fsm) { fprintf(stderr, "slot busy\n"); return 3; }
			memset(sl.storage, fill, sizeof sl.storage);
			sl.ctx.probe = &sl.probe; sl.seq = 0; sl.lastSnap.clear();
			sl.probe.instance = sl.storage;
			// new [1] : with 1, the logger is handed to the constructor (it then sees the initial activation)
#ifdef HFSM2_ENABLE_LOG_INTERFACE
			VLogger* const lg = t.size() > 1 && I(1) == 1 ? &theLogger : nullptr;
	#define FX_LOGGER_ARG , lg
#else
			if (t.size() > 1 && I(1) == 1) { fprintf(stderr, "no logger in this build\n"); return 3; }
	#define FX_LOGGER_ARG
#endif
#ifdef HFSM2_ENABLE_UTILITY_THEORY
			apiCall(sl, cur, labelOf(t), logOn, [&] { static vf::ScriptedRng rng; sl.fsm = new (sl.storage) FSM::Instance{&sl.ctx, rng FX_LOGGER_ARG}; });
#else
			apiCall(sl, cur, labelOf(t), logOn, [&] { sl.fsm = new (sl.storage) FSM::Instance{&sl.ctx FX_LOGGER_ARG}; });
#endif
		}
		else if (c == "copy") {
			// copy <src slot> : copy-construct the instance of <src slot> into the current (empty) slot
			Slot& src = slots[I(1)];
			if (sl.fsm || !src.fsm) { fprintf(stderr, "bad copy\n"); return 3; }
			memset(sl.storage, fill, sizeof sl.storage);
			sl.ctx.probe = &sl.probe; sl.seq = 0; sl.lastSnap = src.lastSnap;
			sl.probe.instance = sl.storage;
			apiCall(sl, cur, labelOf(t), logOn, [&] { sl.fsm = new (sl.storage) FSM::Instance{*src.fsm}; sl.fsm->setContext(&sl.ctx); });
		}
		else if (c == "del") {
			if (!sl.fsm) { fprintf(stderr, "no instance\n"); return 3; }
			apiCall(sl, cur, labelOf(t), logOn, [&] { sl.fsm->~InstanceT(); sl.fsm = nullptr; });
		}
		else {
			if (!sl.fsm) { fprintf(stderr, "no instance for %s\n", c.c_str()); return 3; }
			FSM::Instance& fsm = *sl.fsm;
			if (c == "update")        apiCall(sl, cur, labelOf(t), logOn, [&] { fsm.update(); });
			else if (c == "react")    apiCall(sl, cur, labelOf(t), logOn, [&] { fsm.react(Ev{}); });
			else if (c == "query")    apiCall(sl, cur, labelOf(t), logOn, [&] { Ev e; static_cast<const FSM::Instance&>(fsm).query(e); });
#ifdef HFSM2_ENABLE_LOG_INTERFACE
			else if (c == "logger")   apiCall(sl, cur, labelOf(t), logOn, [&] { fsm.attachLogger(I(1) == 1 ? &theLogger : nullptr); });
#endif
			else if (c == "reset")    apiCall(sl, cur, labelOf(t), logOn, [&] { fsm.reset(); });
			else if (c == "enter")    apiCall(sl, cur, labelOf(t), logOn, [&] { manualEnter(fsm); });
			else if (c == "exit")     apiCall(sl, cur, labelOf(t), logOn, [&] { manualExit(fsm); });
			else if (c == "queue")    apiCall(sl, cur, labelOf(t), logOn, [&] { doRequest(fsm, kindFromName(t[1]), I(2), I(3)); });
			else if (c == "imm")      apiCall(sl, cur, labelOf(t), logOn, [&] { doImmediate(fsm, kindFromName(t[1]), I(2), I(3)); });
#ifdef HFSM2_ENABLE_PLANS
			else if (c == "succeed")  apiCall(sl, cur, labelOf(t), logOn, [&] { fsm.succeed((hfsm2::StateID) (I(1) - 1)); });
			else if (c == "fail")     apiCall(sl, cur, labelOf(t), logOn, [&] { fsm.fail((hfsm2::StateID) (I(1) - 1)); });
			else if (c == "pa")       apiCall(sl, cur, labelOf(t), logOn, [&] { plogAppend(sl.probe, planAppend(fsm.plan((hfsm2::RegionID) (I(1) - 1)), I(2), I(3), kindFromName(t[4]), I(5))); });
			else if (c == "ps")       apiCall(sl, cur, labelOf(t), logOn, [&] { planSweep(sl.probe, fsm.plan((hfsm2::RegionID) (I(1) - 1)), I(2)); });
			else if (c == "pc")       apiCall(sl, cur, labelOf(t), logOn, [&] { planClear(sl.probe, fsm.plan((hfsm2::RegionID) (I(1) - 1))); });
			else if (c == "pr")       apiCall(sl, cur, labelOf(t), logOn, [&] { plogItem(sl.probe, "r", planRemove(fsm.plan((hfsm2::RegionID) (I(1) - 1)), I(2)) ? 1 : 0); });
#endif
#ifdef HFSM2_ENABLE_SERIALIZATION
			else if (c == "save")     apiCall(sl, cur, labelOf(t), logOn, [&] {
				FSM::Instance::SerialBuffer b; static_cast<const FSM::Instance&>(fsm).save(b);
				for (unsigned i = 0; i < sizeof(b.data()); ++i) { if (i) sl.buf += ','; jint(sl.buf, b.data()[i]); } });
			else if (c == "load")     apiCall(sl, cur, labelOf(t), logOn, [&] {
				FSM::Instance::SerialBuffer b; for (unsigned i = 0; i < sizeof(b.data()) && i + 1 < t.size(); ++i) b.data()[i] = (uint8_t) I(i + 1);
				fsm.load(b); });
#endif
#ifdef HFSM2_ENABLE_TRANSITION_HISTORY
			else if (c == "replay" || c == "replayenter") apiCall(sl, cur, labelOf(t), logOn, [&] {
				// replay <src slot> <count> {origin dest kind payload}
				const int n = I(2); std::vector<M::Transition> ts;
				for (int i = 0; i < n; ++i) ts.push_back(makeTransition(I(3 + 4 * i), I(4 + 4 * i), kindFromName(t[5 + 4 * i]), I(6 + 4 * i)));
				sl.ret = (c == "replay" ? fsm.replayTransitions(ts.data(), (hfsm2::Short) n) : doReplayEnter(fsm, ts.data(), (hfsm2::Short) n)) ? 1 : 0; });
#endif
			else { fprintf(stderr, "unknown command %s\n", c.c_str()); return 3; }
		}
		fflush(stdout);
	}
	return 0;
}

}

void* operator new(std::size_t n)   { ++vf::allocCount(); if (void* p = malloc(n ? n : 1)) return p; throw std::bad_alloc(); }
void* operator new[](std::size_t n) { ++vf::allocCount(); if (void* p = malloc(n ? n : 1)) return p; throw std::bad_alloc(); }
void operator delete(void* p) noexcept   { free(p); }
void operator delete[](void* p) noexcept { free(p); }
void operator delete(void* p, std::size_t) noexcept   { free(p); }
void operator delete[](void* p, std::size_t) noexcept { free(p); }

int main() {
	std::set_terminate([] { fflush(stdout); _exit(4); });
	return fx::run();
}
