// Replays TLC-generated test vectors (spec/Bits.tla) on hfsm2::detail::BitArrayT / BitWriteStreamT / BitReadStreamT.
#define HFSM2_ENABLE_SERIALIZATION
#include <hfsm2/machine.hpp>
#include <cstdio>
#include <cstdlib>
#include <cstring>
#include <iostream>
#include <sstream>
#include <string>
#include <vector>
#include <memory>

using namespace hfsm2::detail;
using hfsm2::Short;

static long mismatches = 0, cases = 0;

template <unsigned CAP>
static std::vector<int> contents(const BitArrayT<CAP>& a) { std::vector<int> v; for (unsigned i = 0; i < CAP; ++i) if (a.get(i)) v.push_back((int) i); return v; }

template <unsigned CAP, unsigned I = 0>
struct Static {
	static bool get(const BitArrayT<CAP>& a, unsigned i)   { return i == I ? a.template get<I>() : Static<CAP, I + 1>::get(a, i); }
	static void set(BitArrayT<CAP>& a, unsigned i)         { if (i == I) a.template set<I>(); else Static<CAP, I + 1>::set(a, i); }
	static void clear(BitArrayT<CAP>& a, unsigned i)       { if (i == I) a.template clear<I>(); else Static<CAP, I + 1>::clear(a, i); }
};
template <unsigned CAP> struct Static<CAP, CAP> {
	static bool get(const BitArrayT<CAP>&, unsigned) { return false; }
	static void set(BitArrayT<CAP>&, unsigned) {}
	static void clear(BitArrayT<CAP>&, unsigned) {}
};

// one case:  A cap nsrc src.. op nargs args.. | ndst dst.. out
template <unsigned CAP>
static void arrayCase(long line, const std::vector<int>& src, const std::string& op, const std::vector<int>& args,
					  const std::vector<int>& dst, int out, bool useStatic)
{
	// exactly-sized heap objects, so that AddressSanitizer sees any access outside the array
	std::unique_ptr<BitArrayT<CAP>> pa{new BitArrayT<CAP>()}, pb{new BitArrayT<CAP>()};
	BitArrayT<CAP>& a = *pa; BitArrayT<CAP>& b = *pb;
	for (int i : src) a.set((unsigned) i);
	int got = -1;
	if (op == "set")           { if (useStatic) Static<CAP>::set(a, args[0]); else a.set((unsigned) args[0]); }
	else if (op == "clear")    { if (useStatic) Static<CAP>::clear(a, args[0]); else a.clear((unsigned) args[0]); }
	else if (op == "get")      got = (useStatic ? Static<CAP>::get(a, args[0]) : a.get((unsigned) args[0])) ? 1 : 0;
	else if (op == "setall")   a.set();
	else if (op == "clearall") a.clear();
	else if (op == "empty")    got = a.empty() ? 1 : 0;
	else if (op == "fill_clear_empty") { a.set(); for (unsigned i = 0; i < CAP; ++i) a.clear(i); got = a.empty() ? 1 : 0; }
	else if (op == "fill_ne_full")     { a.set(); for (unsigned i = 0; i < CAP; ++i) b.set(i); got = (a != b) ? 1 : 0; }
	else if (op == "and")      { for (int i : args) b.set((unsigned) i); a &= b; }
	else if (op == "ne")       { for (int i : args) b.set((unsigned) i); got = (a != b) ? 1 : 0; }
	else {
		const Units units{(Short) args[0], (Short) args[1]};
		if (op == "vget")      got = (useStatic ? static_cast<const BitArrayT<CAP>&>(a).cbits(units).get((Short) args[2]) : a.bits(units).get((Short) args[2])) ? 1 : 0;
		else if (op == "vset")      a.bits(units).set((Short) args[2]);
		else if (op == "vclear")    a.bits(units).clear((Short) args[2]);
		else if (op == "vclearall") a.bits(units).clear();
		else if (op == "vbool")     got = (useStatic ? (bool) static_cast<const BitArrayT<CAP>&>(a).cbits(units) : (bool) a.bits(units)) ? 1 : 0;
		else { fprintf(stderr, "bad op %s\n", op.c_str()); exit(3); }
	}
	++cases;
	if (contents(a) != dst || got != out) {
		++mismatches;
		if (mismatches <= 200000) {
			printf("MISMATCH line %ld cap %u op %s%s args", line, CAP, op.c_str(), useStatic ? " (static/const path)" : "");
			for (int x : args) printf(" %d", x);
			printf(" src"); for (int x : src) printf(" %d", x);
			printf(" expected"); for (int x : dst) printf(" %d", x); printf(" out %d got", out);
			for (int x : contents(a)) printf(" %d", x); printf(" out %d\n", got);
		}
	}
}

template <unsigned W> struct WR {
	template <typename S> static void write(S& s, int w, unsigned long v) { if (w == (int) W) s.template write<W>((hfsm2::UBitWidth<W>) v); else WR<W - 1>::write(s, w, v); }
	template <typename S> static unsigned long read(S& s, int w) { if (w == (int) W) return (unsigned long) s.template read<W>(); return WR<W - 1>::read(s, w); }
};
template <> struct WR<0> {
	template <typename S> static void write(S&, int, unsigned long) { fprintf(stderr, "bad width\n"); exit(3); }
	template <typename S> static unsigned long read(S&, int) { fprintf(stderr, "bad width\n"); exit(3); }
};

static constexpr long STREAM_BITS = 128;

// S start nwrites {w v}.. | cursor nbytes bytes..
static void streamCase(long line, int start, const std::vector<std::pair<int, unsigned long>>& writes, long cursor, const std::vector<int>& bytes) {
	using Buffer = StreamBufferT<STREAM_BITS>;
	std::unique_ptr<Buffer> pbuf{new Buffer()};
	memset(pbuf->data(), 0xA5, sizeof(pbuf->data()));		// the write stream must clear it
	{
		BitWriteStreamT<STREAM_BITS> ws{*pbuf};
		if (start) WR<32>::write(ws, start, 0);
		for (auto& wv : writes) WR<32>::write(ws, wv.first, wv.second);
		++cases;
		bool bad = ws.cursor() != cursor;
		for (size_t i = 0; i < bytes.size(); ++i) if (pbuf->data()[i] != bytes[i]) bad = true;
		if (bad) { ++mismatches; if (mismatches <= 20) printf("MISMATCH line %ld stream image: cursor %ld expected %ld\n", line, (long) ws.cursor(), cursor); }
	}
	{
		BitReadStreamT<STREAM_BITS> rs{*pbuf};
		if (start) WR<32>::read(rs, start);
		for (auto& wv : writes) {
			const unsigned long v = WR<32>::read(rs, wv.first);
			if (v != wv.second) { ++mismatches; if (mismatches <= 20) printf("MISMATCH line %ld read back %lu expected %lu width %d\n", line, v, wv.second, wv.first); }
		}
		if (rs.cursor() != cursor) { ++mismatches; if (mismatches <= 20) printf("MISMATCH line %ld read cursor %ld expected %ld\n", line, (long) rs.cursor(), cursor); }
	}
	{	// buffer comparison is equality of contents
		std::unique_ptr<Buffer> other{new Buffer()};
		memcpy(other->data(), pbuf->data(), sizeof(pbuf->data()));
		if (!(*other == *pbuf) || (*other != *pbuf)) { ++mismatches; printf("MISMATCH line %ld equal buffers compare unequal\n", line); }
		other->data()[sizeof(other->data()) - 1] ^= 0x80;
		if ((*other == *pbuf) || !(*other != *pbuf)) { ++mismatches; printf("MISMATCH line %ld different buffers compare equal\n", line); }
	}
}

#define CAPS(X) X(1) X(7) X(8) X(9) X(15) X(16) X(17) X(24) X(33)

int main() {
	std::string lineStr; long line = 0;
	while (std::getline(std::cin, lineStr)) {
		++line;
		std::istringstream in(lineStr);
		std::string kind; in >> kind;
		if (kind == "A") {
			unsigned cap; int n; in >> cap >> n;
			std::vector<int> src(n); for (int& x : src) in >> x;
			std::string op; in >> op; in >> n;
			std::vector<int> args(n); for (int& x : args) in >> x;
			std::string bar; in >> bar; in >> n;
			std::vector<int> dst(n); for (int& x : dst) in >> x;
			int out; in >> out;
#define X(C) if (cap == C) { arrayCase<C>(line, src, op, args, dst, out, false); arrayCase<C>(line, src, op, args, dst, out, true); }
			CAPS(X)
#undef X
		} else if (kind == "S") {
			int start, n; in >> start >> n;
			std::vector<std::pair<int, unsigned long>> writes(n);
			for (auto& wv : writes) in >> wv.first >> wv.second;
			std::string bar; in >> bar; long cursor; in >> cursor; in >> n;
			std::vector<int> bytes(n); for (int& x : bytes) in >> x;
			streamCase(line, start, writes, cursor, bytes);
		}
	}
	printf("DONE cases %ld mismatches %ld\n", cases, mismatches);
	return mismatches ? 1 : 0;
}
