// Replays TLC-generated operation sequences (spec/Containers.tla) on hfsm2::detail::TaskListT and DynamicArrayT.
#define HFSM2_ENABLE_PLANS
#include <hfsm2/machine.hpp>
#include <cstdio>
#include <cstdlib>
#include <iostream>
#include <sstream>
#include <string>
#include <vector>
#include <memory>
#include <algorithm>

using namespace hfsm2::detail;
static long mismatches = 0, cases = 0, steps = 0, breaks = 0;
#ifdef HFSM2_VERIF
// assertion / HFSM2_BREAK hits (HFSM2_VERIF hook): counted and printed for information (emplace on a full pool is a
// documented HFSM2_BREAK() site); what is judged are the results, against spec/Containers.tla
extern "C" void hfsm2_verif_break(const char* file, int line) noexcept { ++breaks; if (breaks <= 10) printf("BREAK %s:%d\n", file, line); }
#endif
static void bad(long line, int step, const char* what) { ++mismatches; if (mismatches <= 30) printf("MISMATCH line %ld step %d: %s\n", line, step, what); }

// P cap nops {E | C | R k} | per op: ok count n values..
template <long CAP>
static void poolCase(long line, std::istringstream& in) {
	int nops; in >> nops;
	std::vector<std::pair<char, int>> ops(nops);
	for (auto& o : ops) { std::string t; in >> t; o.first = t[0]; o.second = 0; if (t[0] == 'R') in >> o.second; }
	std::string bar; in >> bar;
	using Pool = TaskListT<int, CAP>;
	std::unique_ptr<Pool> pool{new Pool()};
	std::vector<std::pair<long, int>> live;		// (slot, value) oldest first
	int next = 1;
	++cases;
	for (int s = 0; s < nops; ++s) {
		int ok, count, n; in >> ok >> count >> n;
		std::vector<int> vals(n); for (int& v : vals) in >> v;
		++steps;
		if (ops[s].first == 'E') {
			const long slot = (long) pool->emplace((hfsm2::StateID) (next & 0xFF), (hfsm2::StateID) ((next >> 8) & 0xFF), hfsm2::TransitionType::CHANGE, next);
			const bool got = slot != (long) Pool::INVALID;
			if (got != (ok == 1)) bad(line, s, "emplace success flag");
			if (got) {
				if (slot < 0 || slot >= CAP) bad(line, s, "slot out of range");
				for (auto& l : live) if (l.first == slot) bad(line, s, "emplace returned a slot that is in use");
				live.emplace_back(slot, next);
			}
			++next;
		} else if (ops[s].first == 'R') {
			if (ok == -1) { /* nothing live: skipped */ }
			else {
				const int k = (ops[s].second - 1) % (int) live.size();
				pool->remove(live[k].first);
				live.erase(live.begin() + k);
			}
		} else { pool->clear(); live.clear(); }
		if ((long) pool->count() != count) bad(line, s, "count");
		if ((int) live.size() != n) bad(line, s, "live item number (harness bookkeeping vs model)");
		for (size_t i = 0; i < live.size() && i < vals.size(); ++i) {
			const auto& item = (*pool)[live[i].first];
			const int* p = item.payload();
			if (live[i].second != vals[i] || !p || *p != vals[i] || item.origin != (hfsm2::StateID) (vals[i] & 0xFF))
				bad(line, s, "live item lost its contents");
		}
		if (pool->empty() != (count == 0)) bad(line, s, "empty()");
	}
}

// D cap nops {E v | C | P n vs.. | A n vs..} | per op: n values..
template <long CAP>
static void arrayCase(long line, std::istringstream& in) {
	int nops; in >> nops;
	struct O { char t; std::vector<int> v; };
	std::vector<O> ops(nops);
	for (auto& o : ops) { std::string t; in >> t; o.t = t[0]; if (t[0] == 'E') { o.v.resize(1); in >> o.v[0]; } else if (t[0] != 'C') { int n; in >> n; o.v.resize(n); for (int& x : o.v) in >> x; } }
	std::string bar; in >> bar;
	using Arr = DynamicArrayT<int, CAP>;
	std::unique_ptr<Arr> a{new Arr()};
	++cases;
	for (int s = 0; s < nops; ++s) {
		int n; in >> n; std::vector<int> vals(n); for (int& v : vals) in >> v;
		++steps;
		if (ops[s].t == 'E') a->emplace(ops[s].v[0]);
		else if (ops[s].t == 'C') a->clear();
		else {
			DynamicArrayT<int, 8> other; for (int x : ops[s].v) other.emplace(x);
			if (ops[s].t == 'P') *a += other;
			else { Arr copy; copy += other; *a = copy; }
		}
		if ((int) a->count() != n) bad(line, s, "array count");
		for (int i = 0; i < n && i < (int) a->count(); ++i) if ((*a)[i] != vals[i]) bad(line, s, "array contents / order");
		if (a->empty() != (n == 0)) bad(line, s, "array empty()");
		int it = 0; for (const int& x : *a) { if (it >= n || x != vals[it]) bad(line, s, "array iteration"); ++it; }
		if (it != n) bad(line, s, "array iteration length");
	}
}

#define POOL_CAPS(X) X(1) X(2) X(3) X(4) X(5) X(8)

int main() {
	std::string lineStr; long line = 0;
	while (std::getline(std::cin, lineStr)) {
		++line;
		std::istringstream in(lineStr);
		std::string kind; long cap; in >> kind >> cap;
#define X(C) if (cap == C) { if (kind == "P") poolCase<C>(line, in); else arrayCase<C>(line, in); }
		POOL_CAPS(X)
#undef X
	}
	printf("DONE cases %ld steps %ld mismatches %ld breaks %ld\n", cases, steps, mismatches, breaks);
	return mismatches ? 1 : 0;
}
