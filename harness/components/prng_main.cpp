// Dumps seeded state, outputs, jump() and float conversions of the bundled generators as ndjson (16-bit limbs).
#define HFSM2_ENABLE_UTILITY_THEORY
#include <hfsm2/machine.hpp>
#include <cstdio>
#include <cstdlib>
#include <cstdint>
#include <cmath>
#include <iostream>
#include <sstream>
#include <string>

using namespace hfsm2::detail;

template <typename W> static void limbs(std::string& o, W v) {
	o += '['; for (unsigned i = 0; i < sizeof(W) / 2; ++i) { if (i) o += ','; o += std::to_string((unsigned) ((v >> (16 * i)) & 0xFFFF)); } o += ']';
}
// read-only access to the private state words (explicit-instantiation access probe)
template <typename Tag, typename Tag::type M> struct Rob { friend typename Tag::type get(Tag) { return M; } };
struct S8 { using type = uint64_t (BaseRandomT<8>::*)[4]; friend type get(S8); };
struct S4 { using type = uint32_t (BaseRandomT<4>::*)[4]; friend type get(S4); };
template struct Rob<S8, &BaseRandomT<8>::_state>;
template struct Rob<S4, &BaseRandomT<4>::_state>;
// the generators derive privately from BaseRandomT: a C-style cast reaches the inaccessible base
static uint64_t stateWord(FloatRandomT<8>& g, int i) { return (((BaseRandomT<8>&) g).*get(S8{}))[i]; }
static uint64_t stateWord(IntRandomT<8>& g, int i)   { return (((BaseRandomT<8>&) g).*get(S8{}))[i]; }
static uint32_t stateWord(FloatRandomT<4>& g, int i) { return (((BaseRandomT<4>&) g).*get(S4{}))[i]; }
static uint32_t stateWord(IntRandomT<4>& g, int i)   { return (((BaseRandomT<4>&) g).*get(S4{}))[i]; }
template <typename G> using Open = G;

template <typename G, typename W, typename NextFn>
static void run(const char* kind, int w, W seed, int n, int m, NextFn next) {
	Open<G> g{seed};
	std::string o = "{\"kind\":\""; o += kind; o += "\",\"w\":"; o += std::to_string(w); o += ",\"seed\":"; limbs(o, seed);
	o += ",\"state\":["; for (int i = 0; i < 4; ++i) { if (i) o += ','; limbs(o, (W) stateWord(g, i)); } o += "]";
	o += ",\"out\":["; for (int i = 0; i < n; ++i) { if (i) o += ','; limbs(o, (W) next(g)); } o += "]";
	g.jump();
	o += ",\"jstate\":["; for (int i = 0; i < 4; ++i) { if (i) o += ','; limbs(o, (W) stateWord(g, i)); } o += "]";
	o += ",\"jout\":["; for (int i = 0; i < m; ++i) { if (i) o += ','; limbs(o, (W) next(g)); } o += "]";
	// float conversions on a fresh generator: value and the raw integer it was derived from
	Open<G> f{seed}; Open<G> r{seed};
	bool inRange = true; std::string f32 = "[";
	for (int i = 0; i < 16; ++i) {
		const uint32_t raw = r.uint32(); const float v = f.float32();
		if (!(v >= 0.0f && v < 1.0f)) inRange = false;
		if (i) f32 += ','; f32 += std::to_string((unsigned long) std::ldexp((double) v, 23)); f32 += ','; f32 += std::to_string((unsigned long) (raw >> 9));
	}
	Open<G> fd{seed}; Open<G> rd{seed}; std::string f64 = "[";
	for (int i = 0; i < 16; ++i) {
		const uint64_t raw = rd.uint64(); const double v = fd.float64();
		if (!(v >= 0.0 && v < 1.0)) inRange = false;
		if (i) f64 += ','; f64 += std::to_string((unsigned long long) std::ldexp(v, 52) == (raw >> 12) ? 1 : 0);
	}
	o += ",\"f32\":" + f32 + "],\"f64ok\":" + f64 + "],\"inRange\":"; o += inRange ? "true" : "false"; o += "}\n";
	fputs(o.c_str(), stdout);
}

int main() {
	std::string line;
	while (std::getline(std::cin, line)) {
		std::istringstream in(line);
		std::string kind; int w, n, m; unsigned long long seed; in >> kind >> w >> seed >> n >> m;
		if (kind == "plus" && w == 64)          run<FloatRandomT<8>, uint64_t>("plus", 64, (uint64_t) seed, n, m, [](Open<FloatRandomT<8>>& g) { return g.uint64(); });
		else if (kind == "starstar" && w == 64) run<IntRandomT<8>,   uint64_t>("starstar", 64, (uint64_t) seed, n, m, [](Open<IntRandomT<8>>& g) { return g.uint64(); });
		else if (kind == "plus" && w == 32)     run<FloatRandomT<4>, uint32_t>("plus", 32, (uint32_t) seed, n, m, [](Open<FloatRandomT<4>>& g) { return g.uint32(); });
		else if (kind == "starstar" && w == 32) run<IntRandomT<4>,   uint32_t>("starstar", 32, (uint32_t) seed, n, m, [](Open<IntRandomT<4>>& g) { return g.uint32(); });
	}
	return 0;
}
