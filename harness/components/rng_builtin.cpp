// C10 / C20: a machine using the BUILT-IN generator must make the same random choices whatever its storage held
// before construction, and a copy must continue exactly as the original would.  Prints ndjson; the expected
// choice sequence is computed by TLC from spec/Prng.tla.
#define HFSM2_ENABLE_UTILITY_THEORY
#include <hfsm2/machine.hpp>
#include <cstdio>
#include <cstring>
#include <new>
#include <string>
#include <vector>

using M = hfsm2::Machine;		// default configuration: automatic activation, float utilities, built-in RNGT<float>
struct A; struct B; struct C; struct D; struct R;
using FSM = M::RandomRoot<R, A, B, C, D>;
struct R : FSM::State {}; struct A : FSM::State {}; struct B : FSM::State {}; struct C : FSM::State {}; struct D : FSM::State {};

static int activeOf(const FSM::Instance& f) { for (int s = 1; s <= 4; ++s) if (f.isActive((hfsm2::StateID) s)) return s; return 0; }

static void jlist(std::string& o, const char* key, const std::vector<int>& v) {
	o += ",\""; o += key; o += "\":["; for (size_t i = 0; i < v.size(); ++i) { if (i) o += ','; o += std::to_string(v[i]); } o += "]";
}

int main() {
	const unsigned char fills[] = {0x00, 0xFF, 0xA5, 0x01, 0x80};
	alignas(64) static unsigned char storage[2][sizeof(FSM::Instance) + 64];
	for (unsigned char fill : fills) {
		memset(storage, fill, sizeof storage);
		FSM::Instance* f = new (storage[0]) FSM::Instance{};
		std::vector<int> seq{activeOf(*f)};								// choice made inside the constructor
		for (int i = 0; i < 5; ++i) { f->randomize<R>(); f->update(); seq.push_back(activeOf(*f)); }
		// copy after 6 choices; the original then makes 3 more choices, dies, and the copy makes 5
		FSM::Instance* c = new (storage[1]) FSM::Instance{*f};
		std::vector<int> orig, copy;
		for (int i = 0; i < 3; ++i) { f->randomize<R>(); f->update(); orig.push_back(activeOf(*f)); }
		f->~InstanceT();
		memset(storage[0], (unsigned char) ~fill, sizeof storage[0]);
		for (int i = 0; i < 5; ++i) { c->randomize<R>(); c->update(); copy.push_back(activeOf(*c)); }
		c->~InstanceT();
		std::string o = "{\"fill\":" + std::to_string((int) fill);
		jlist(o, "seq", seq); jlist(o, "orig", orig); jlist(o, "copy", copy); o += "}\n";
		fputs(o.c_str(), stdout);
	}
	return 0;
}
