// Generic conformance executor for a generated HFSM2 fixture.
// Expects (from the generated translation unit), in namespace fx:
//   Config, M, FSM, template <int> struct St (declared), PayPolicy (or void), constants
//   N (states), RC (regions), kManual, kHasPlans, kHasHistory, kHasSerial, kHasReport, kHasUtility,
//   constexpr bool isInj(int), isDefPlan(int), isHeaded(int)
//   visitStates(F&) : calls f.template operator()<ID>() for every user state id
#include <type_traits>
#include <iostream>
#include <sstream>
#include <unistd.h>

namespace fx {

using vf::Probe;
using vf::Rational;

static const char* const kMethodNames[] = {
	"none", "select", "rank", "utility", "entryGuard", "enter", "reenter", "preUpdate", "update", "postUpdate",
	"preReact", "react", "query", "postReact", "exitGuard", "exit", "planSucceeded", "planFailed"
};
static const char* const kKindNames[] = { "change", "restart", "resume", "select", "utilize", "randomize", "schedule" };

static int kindFromName(const std::string& s) {
	for (int i = 0; i < 7; ++i) if (s == kKindNames[i]) return i;
	fprintf(stderr, "bad kind %s\n", s.c_str()); exit(3);
}
static hfsm2::TransitionType kindType(int k) {
	using T = hfsm2::TransitionType;
	switch (k) { case 0: return T::CHANGE; case 1: return T::RESTART; case 2: return T::RESUME; case 3: return T::SELECT;
#ifdef HFSM2_ENABLE_UTILITY_THEORY
		case 4: return T::UTILIZE; case 5: return T::RANDOMIZE;
#endif
		default: return T::SCHEDULE; }
}
static const char* kindName(hfsm2::TransitionType t) {
	using T = hfsm2::TransitionType;
	switch (t) { case T::CHANGE: return "change"; case T::RESTART: return "restart"; case T::RESUME: return "resume"; case T::SELECT: return "select";
		case T::UTILIZE: return "utilize"; case T::RANDOMIZE: return "randomize"; case T::SCHEDULE: return "schedule"; default: return "?"; }
}

struct Ev {};		// the event type used for react / query
using PlanControl_ = hfsm2::detail::PlanControlT<FSM::Args>;

//------------------------------------------------------------------------------

struct Op { std::string t; int a[5] = {0, 0, 0, 0, 0}; std::string k; };
struct Hook { int s; std::string me; int n; std::vector<Op> ops; };

struct Script {
	std::vector<Hook> hooks;
	int sel[N]; int rank[N]; Rational util[N];
	std::vector<Rational> rng;
	void reset() { hooks.clear(); rng.clear(); for (int i = 0; i < N; ++i) { sel[i] = 1; rank[i] = 0; util[i] = Rational{1, 1}; } }
};

}

namespace vf {
struct Probe {
	fx::Script sc;
	std::string ev;				// JSON array body of events
	std::string log;			// JSON array body of logger records
	int evCount = 0;
	int draws = 0;
	std::string plog;			// JSON array body: what the plan API answered (["a",ok] per append, ["w",[tasks]] per sweep)
	std::vector<int> badThis;	// event indices whose `this` was not access<State>()
	std::vector<int> badOrigin;	// event indices whose control.stateId() was not the state's id
	int occ[fx::N][40];			// occurrences of (state, method) in this call
	void* instance = nullptr;	// FSM::Instance*
	bool quiet = false;			// no event logging (used to count the library's own allocations)
	void resetCall() { ev.clear(); log.clear(); plog.clear(); evCount = 0; draws = 0; badThis.clear(); badOrigin.clear(); memset(occ, 0, sizeof occ); }
};
inline UtilT ScriptedRng::next() noexcept {
	Probe& p = *currentProbe();
	const size_t i = (size_t) p.draws++;
	return toUtil(i < p.sc.rng.size() ? p.sc.rng[i] : Rational{0, 1});
}
}

namespace fx {

//------------------------------------------------------------------------------
// JSON helpers

static void jint(std::string& o, long v) { char b[24]; snprintf(b, sizeof b, "%ld", v); o += b; }
template <typename F> static void jarr(std::string& o, int n, F f) { o += '['; for (int i = 0; i < n; ++i) { if (i) o += ','; f(i); } o += ']'; }

template <typename TPolicy> struct PayTok {
	template <typename T> static int of(const T& t) { auto p = t.payload(); return p ? TPolicy::token(*p) : 0; }
};
template <> struct PayTok<void> { template <typename T> static int of(const T&) { return 0; } };

template <typename TTransition>
static void jtransition(std::string& o, const TTransition& t) {
	o += '['; jint(o, t.origin == hfsm2::INVALID_STATE_ID ? 0 : t.origin + 1); o += ','; jint(o, t.destination + 1);
	o += ",\""; o += kindName(t.type); o += "\","; jint(o, PayTok<PayPolicy>::of(t)); o += ']';
}
template <typename TArr>
static void jtransitions(std::string& o, const TArr& arr) {
	o += '['; for (unsigned i = 0; i < arr.count(); ++i) { if (i) o += ','; jtransition(o, arr[i]); } o += ']';
}

//------------------------------------------------------------------------------
// ops performed from inside callbacks, through the control object the callback was given

template <typename TPolicy> struct ReqWith {
	template <typename C> static void go(C& c, int k, hfsm2::StateID d, int p) {
		const typename TPolicy::Type v = TPolicy::make(p);
		switch (k) { case 0: c.changeWith(d, v); break; case 1: c.restartWith(d, v); break; case 2: c.resumeWith(d, v); break; case 3: c.selectWith(d, v); break;
#ifdef HFSM2_ENABLE_UTILITY_THEORY
			case 4: c.utilizeWith(d, v); break; case 5: c.randomizeWith(d, v); break;
#endif
			default: c.scheduleWith(d, v); }
	}
	template <typename P> static bool append(P pl, hfsm2::StateID o, hfsm2::StateID d, int k, int p) {
		const typename TPolicy::Type v = TPolicy::make(p);
		switch (k) { case 0: return pl.changeWith(o, d, v); case 1: return pl.restartWith(o, d, v); case 2: return pl.resumeWith(o, d, v); case 3: return pl.selectWith(o, d, v);
#ifdef HFSM2_ENABLE_UTILITY_THEORY
			case 4: return pl.utilizeWith(o, d, v); case 5: return pl.randomizeWith(o, d, v);
#endif
			default: return pl.scheduleWith(o, d, v); }
	}
};
template <> struct ReqWith<void> {
	template <typename C> static void go(C&, int, hfsm2::StateID, int) {}
	template <typename P> static bool append(P, hfsm2::StateID, hfsm2::StateID, int, int) { return false; }
};

template <typename C> static void doRequest(C& c, int k, int d1, int p) {
	const hfsm2::StateID d = (hfsm2::StateID) (d1 - 1);
	if (p != 0) { ReqWith<PayPolicy>::go(c, k, d, p); return; }
	switch (k) { case 0: c.changeTo(d); break; case 1: c.restart(d); break; case 2: c.resume(d); break; case 3: c.select(d); break;
#ifdef HFSM2_ENABLE_UTILITY_THEORY
		case 4: c.utilize(d); break; case 5: c.randomize(d); break;
#endif
		default: c.schedule(d); }
}

#ifdef HFSM2_ENABLE_PLANS
template <typename P> static bool planAppend(P pl, int o1, int d1, int k, int p) {
	const hfsm2::StateID o = (hfsm2::StateID) (o1 - 1), d = (hfsm2::StateID) (d1 - 1);
	if (p != 0) return ReqWith<PayPolicy>::append(pl, o, d, k, p);
	switch (k) { case 0: return pl.change(o, d); case 1: return pl.restart(o, d); case 2: return pl.resume(o, d); case 3: return pl.select(o, d);
#ifdef HFSM2_ENABLE_UTILITY_THEORY
		case 4: return pl.utilize(o, d); case 5: return pl.randomize(o, d);
#endif
		default: return pl.schedule(o, d); }
}
template <typename P> static bool planRemove(P pl, int i) {
	int n = 1; for (auto it = pl.begin(); it; ++it, ++n) if (n == i) { it.remove(); return true; }
	return false;
}
template <typename P> static int planLength(P pl) { int n = 0; for (auto it = pl.begin(); it; ++it) ++n; return n; }
template <typename T> static void jtask(std::string& o, const T& t) {
	o += '['; jint(o, t.origin + 1); o += ','; jint(o, t.destination + 1); o += ",\""; o += kindName(t.type); o += "\","; jint(o, PayTok<PayPolicy>::of(t)); o += ']';
}
static void plogItem(Probe& p, const char* what, int v) { if (p.quiet) return; if (!p.plog.empty()) p.plog += ','; p.plog += "[\""; p.plog += what; p.plog += "\","; jint(p.plog, v); p.plog += ']'; }
static void plogAppend(Probe& p, bool ok) { plogItem(p, "a", ok ? 1 : 0); }
template <typename P> static void planClear(Probe& p, P pl) { plogItem(p, "c", planLength(pl)); pl.clear(); }
// visit every task of the plan once, removing (through the iterator) those whose position is in `mask`
template <typename P> static void planSweep(Probe& p, P pl, int mask) {
	const bool log = !p.quiet;		// (quiet mode measures the library's own allocations)
	if (log) { if (!p.plog.empty()) p.plog += ','; p.plog += "[\"w\",["; }
	int n = 0;
	for (auto it = pl.begin(); it; ++it, ++n) {
		if (log) { if (n) p.plog += ','; jtask(p.plog, *it); }
		if (n < 30 && (mask >> n & 1)) it.remove();
	}
	if (log) p.plog += "]]";
}
template <typename C> static void planOps(C& c, const Op& op) {
	Probe& p = *c._()->probe;
	if (op.t == "plan_append")      plogAppend(p, planAppend(c.plan((hfsm2::RegionID) (op.a[0] - 1)), op.a[1], op.a[2], kindFromName(op.k), op.a[3]));
	else if (op.t == "plan_clear")  planClear(p, c.plan((hfsm2::RegionID) (op.a[0] - 1)));
	else if (op.t == "plan_remove") plogItem(p, "r", planRemove(c.plan((hfsm2::RegionID) (op.a[0] - 1)), op.a[1]) ? 1 : 0);
	else if (op.t == "plan_sweep")  planSweep(p, c.plan((hfsm2::RegionID) (op.a[0] - 1)), op.a[1]);
}
#else
template <typename C> static void planOps(C&, const Op&) {}
#endif

// what each control class can do
static void opsFor(PlanControl_& c, const Op& op)  { planOps(c, op); }
static void opsFull(FSM::FullControl& c, const Op& op) {
	if (op.t == "req") doRequest(c, kindFromName(op.k), op.a[0], op.a[1]);
#ifdef HFSM2_ENABLE_PLANS
	else if (op.t == "succeed") c.succeed((hfsm2::StateID) (op.a[0] - 1));
	else if (op.t == "fail")    c.fail   ((hfsm2::StateID) (op.a[0] - 1));
#endif
	else planOps(c, op);
}
static void opsFor(FSM::FullControl& c, const Op& op)  { opsFull(c, op); }
static void opsFor(FSM::GuardControl& c, const Op& op) { if (op.t == "cancel") c.cancelPendingTransitions(); else opsFull(c, op); }
static void opsFor(FSM::EventControl& c, const Op& op) { if (op.t == "consume") c.consumeEvent(); else opsFull(c, op); }
static void opsFor(FSM::ConstControl& c, const Op& op) { if (op.t == "consume") c.consumeQuery(); }

//------------------------------------------------------------------------------
// observations

// bit masks over state ids (bit s-1 for 1-based state s); -1 = not observable from this callback
template <typename F> static long maskOf(F f) { long m = 0; for (int s = 0; s < N; ++s) if (f(s)) m |= (1L << s); return m; }
static int compoHeads[N]; static int compoHeadCount = 0;		// 0-based ids of composite region heads, filled at start-up

template <typename C> static void obsConfig(std::string& o, const C& c) {
	jint(o, maskOf([&](int s) { return c.isActive((hfsm2::StateID) s); })); o += ',';
	jarr(o, compoHeadCount, [&](int i) { const hfsm2::Prong p = c.activeSubState((hfsm2::StateID) compoHeads[i]); jint(o, p == hfsm2::INVALID_PRONG ? 0 : p + 1); });
}
static void obsNoConfig(std::string& o) { o += "-1,[]"; }

static void statusCodes(std::string& o, void* instance);		// defined in main.inl (reads the plan data through the access probe)
static void requestedRegistry(std::string& o, void* instance);	// defined in main.inl (requested prongs, remain marks, orthogonal request bits)
static void observe(std::string& o, PlanControl_& c) { obsNoConfig(o); o += ",-1,-1,-1,[],"; jtransitions(o, c.currentTransitions()); o += ",[],[]"; }
static void observe(std::string& o, FSM::FullControl& c) { obsConfig(o, c); o += ",-1,-1,-1,[],[],"; statusCodes(o, c._()->probe->instance); o += ",[]"; }
static void observe(std::string& o, FSM::EventControl& c) { obsConfig(o, c); o += ",-1,-1,-1,[],[],"; statusCodes(o, c._()->probe->instance); o += ",[]"; }
static void observe(std::string& o, FSM::ConstControl& c) { obsConfig(o, c); o += ",-1,-1,-1,[],[],[],[]"; }
static void observe(std::string& o, FSM::GuardControl& c) {
	obsConfig(o, c); o += ',';
	jint(o, maskOf([&](int s) { return c.isPendingEnter ((hfsm2::StateID) s); })); o += ',';
	jint(o, maskOf([&](int s) { return c.isPendingExit  ((hfsm2::StateID) s); })); o += ',';
	jint(o, maskOf([&](int s) { return c.isPendingChange((hfsm2::StateID) s); })); o += ',';
	jtransitions(o, c.pendingTransitions()); o += ',';
	jtransitions(o, c.currentTransitions()); o += ",[],"; requestedRegistry(o, c._()->probe->instance);
}

static const void* accessOf(void* instance, int id);		// defined after St

template <typename C> static hfsm2::StateID originOf(const C& c) { return c.stateId(); }

template <typename C>
static void probeCall(C& c, int id, int method, const void* self, bool injected) {
	Probe& p = *c._()->probe;
	char me[40]; snprintf(me, sizeof me, "%s%s", injected ? "i_" : "", kMethodNames[method]);
	const int occurrence = ++p.occ[id][method + (injected ? 20 : 0)];
	if (!p.quiet) {
		if (p.evCount++) p.ev += ',';
		p.ev += '['; jint(p.ev, id + 1); p.ev += ",\""; p.ev += me; p.ev += "\","; observe(p.ev, c); p.ev += ']';
	}
	if (!injected && self != accessOf(p.instance, id)) p.badThis.push_back(p.evCount);
	if (originOf(c) != (hfsm2::StateID) id) p.badOrigin.push_back(p.evCount);
	for (const Hook& h : p.sc.hooks)
		if (h.s == id + 1 && h.me == me && h.n == occurrence) {
			for (const Op& op : h.ops) opsFor(c, op);
			break;
		}
}

template <typename C>
static void probeReport(const C& c, int id, int method) {
	Probe& p = *c._()->probe;
	if (p.quiet) return;
	if (p.evCount++) p.ev += ',';
	p.ev += '['; jint(p.ev, id + 1); p.ev += ",\""; p.ev += kMethodNames[method]; p.ev += "\",-1,[],-1,-1,-1,[],[],[],[]]";
}

enum { M_SELECT = 1, M_RANK, M_UTILITY, M_ENTRY_GUARD, M_ENTER, M_REENTER, M_PRE_UPDATE, M_UPDATE, M_POST_UPDATE,
	   M_PRE_REACT, M_REACT, M_QUERY, M_POST_REACT, M_EXIT_GUARD, M_EXIT, M_PLAN_SUCCEEDED, M_PLAN_FAILED };

//------------------------------------------------------------------------------
// generic state types

template <int ID, bool INJ>
struct Callbacks : FSM::State {
	using Base = FSM::State;
	void entryGuard(typename Base::GuardControl& c)				{ probeCall(c, ID, M_ENTRY_GUARD, this, INJ); }
	void enter     (typename Base::PlanControl& c)				{ probeCall(c, ID, M_ENTER,       this, INJ); }
	void reenter   (typename Base::PlanControl& c)				{ probeCall(c, ID, M_REENTER,     this, INJ); }
	void preUpdate (typename Base::FullControl& c)				{ probeCall(c, ID, M_PRE_UPDATE,  this, INJ); }
	void update    (typename Base::FullControl& c)				{ probeCall(c, ID, M_UPDATE,      this, INJ); }
	void postUpdate(typename Base::FullControl& c)				{ probeCall(c, ID, M_POST_UPDATE, this, INJ); }
	void preReact  (const Ev&, typename Base::EventControl& c)	{ probeCall(c, ID, M_PRE_REACT,   this, INJ); }
	void react     (const Ev&, typename Base::EventControl& c)	{ probeCall(c, ID, M_REACT,       this, INJ); }
	void postReact (const Ev&, typename Base::EventControl& c)	{ probeCall(c, ID, M_POST_REACT,  this, INJ); }
	void query     (Ev&, typename Base::ConstControl& c) const	{ probeCall(c, ID, M_QUERY,       this, INJ); }
	void exitGuard (typename Base::GuardControl& c)				{ probeCall(c, ID, M_EXIT_GUARD,  this, INJ); }
	void exit      (typename Base::PlanControl& c)				{ probeCall(c, ID, M_EXIT,        this, INJ); }
};

template <int ID> struct Inj : Callbacks<ID, true> {};

template <int ID, bool INJ> struct OwnBase;
template <int ID> struct OwnBase<ID, false> : FSM::State {};
template <int ID> struct OwnBase<ID, true>  : FSM::StateT<Inj<ID>> {};

// the state's own handlers (+ select / rank / utility)
template <int ID>
struct Own : OwnBase<ID, isInj(ID)> {
	using Base = FSM::State;
	void entryGuard(typename Base::GuardControl& c)				{ probeCall(c, ID, M_ENTRY_GUARD, this, false); }
	void enter     (typename Base::PlanControl& c)				{ probeCall(c, ID, M_ENTER,       this, false); }
	void reenter   (typename Base::PlanControl& c)				{ probeCall(c, ID, M_REENTER,     this, false); }
	void preUpdate (typename Base::FullControl& c)				{ probeCall(c, ID, M_PRE_UPDATE,  this, false); }
	void update    (typename Base::FullControl& c)				{ probeCall(c, ID, M_UPDATE,      this, false); }
	void postUpdate(typename Base::FullControl& c)				{ probeCall(c, ID, M_POST_UPDATE, this, false); }
	void preReact  (const Ev&, typename Base::EventControl& c)	{ probeCall(c, ID, M_PRE_REACT,   this, false); }
	void react     (const Ev&, typename Base::EventControl& c)	{ probeCall(c, ID, M_REACT,       this, false); }
	void postReact (const Ev&, typename Base::EventControl& c)	{ probeCall(c, ID, M_POST_REACT,  this, false); }
	void query     (Ev&, typename Base::ConstControl& c) const	{ probeCall(c, ID, M_QUERY,       this, false); }
	void exitGuard (typename Base::GuardControl& c)				{ probeCall(c, ID, M_EXIT_GUARD,  this, false); }
	void exit      (typename Base::PlanControl& c)				{ probeCall(c, ID, M_EXIT,        this, false); }

	hfsm2::Prong select(const typename Base::Control& c)		{ probeReport(c, ID, M_SELECT); return (hfsm2::Prong) (c._()->probe->sc.sel[ID] - 1); }
#ifdef HFSM2_ENABLE_UTILITY_THEORY
	typename Base::Rank    rank   (const typename Base::Control& c)	{ probeReport(c, ID, M_RANK);    return (typename Base::Rank) c._()->probe->sc.rank[ID]; }
	typename Base::Utility utility(const typename Base::Control& c)	{ probeReport(c, ID, M_UTILITY); return vf::toUtil(c._()->probe->sc.util[ID]); }
#endif
};

template <int ID, bool DEFPLAN> struct WithPlan;
template <int ID> struct WithPlan<ID, true> : Own<ID> {};
template <int ID> struct WithPlan<ID, false> : Own<ID> {
#ifdef HFSM2_ENABLE_PLANS
	void planSucceeded(typename FSM::State::FullControl& c)		{ probeCall(c, ID, M_PLAN_SUCCEEDED, this, false); }
	void planFailed   (typename FSM::State::FullControl& c)		{ probeCall(c, ID, M_PLAN_FAILED,    this, false); }
#endif
};

template <int ID> struct St : WithPlan<ID, isDefPlan(ID)> {};
// states that define only some of the methods (fixture config `overrides`): explicit specialisations generated by
// engine/gen.py; their bodies go through forwarders defined below, so that nothing instantiates the machine (and with
// it the primary St<>) before every specialisation has been seen
#ifdef FX_SPECIALISATIONS
static void fwd(typename FSM::State::GuardControl& c, int id, int m, const void* self);
static void fwd(typename FSM::State::PlanControl&  c, int id, int m, const void* self);
static void fwd(typename FSM::State::FullControl&  c, int id, int m, const void* self);
static void fwd(typename FSM::State::EventControl& c, int id, int m, const void* self);
static void fwd(typename FSM::State::ConstControl& c, int id, int m, const void* self);
static int  fwdSelect(const typename FSM::State::Control& c, int id);
#ifdef HFSM2_ENABLE_UTILITY_THEORY
static int  fwdRank(const typename FSM::State::Control& c, int id);
static vf::UtilT fwdUtility(const typename FSM::State::Control& c, int id);
#endif
FX_SPECIALISATIONS
static void fwd(typename FSM::State::GuardControl& c, int id, int m, const void* self) { probeCall(c, id, m, self, false); }
static void fwd(typename FSM::State::PlanControl&  c, int id, int m, const void* self) { probeCall(c, id, m, self, false); }
static void fwd(typename FSM::State::FullControl&  c, int id, int m, const void* self) { probeCall(c, id, m, self, false); }
static void fwd(typename FSM::State::EventControl& c, int id, int m, const void* self) { probeCall(c, id, m, self, false); }
static void fwd(typename FSM::State::ConstControl& c, int id, int m, const void* self) { probeCall(c, id, m, self, false); }
static int  fwdSelect(const typename FSM::State::Control& c, int id) { probeReport(c, id, M_SELECT); return c._()->probe->sc.sel[id] - 1; }
#ifdef HFSM2_ENABLE_UTILITY_THEORY
static int  fwdRank(const typename FSM::State::Control& c, int id) { probeReport(c, id, M_RANK); return c._()->probe->sc.rank[id]; }
static vf::UtilT fwdUtility(const typename FSM::State::Control& c, int id) { probeReport(c, id, M_UTILITY); return vf::toUtil(c._()->probe->sc.util[id]); }
#endif
#endif

struct AccessVisitor { void* instance; int want; const void* out;
	template <int ID> void visit() { if (ID == want) out = &static_cast<FSM::Instance*>(instance)->template access<St<ID>>(); } };
static const void* accessOf(void* instance, int id) { AccessVisitor v{instance, id, nullptr}; visitStates(v); return v.out; }

}
