import sys
def edit(path, pairs):
    b=open(path,'rb').read()
    bom=b.startswith(b'\xef\xbb\xbf')
    s=(b[3:] if bom else b).decode('utf-8')
    for old,new in pairs:
        assert s.count(old)==1, (path, old[:60], s.count(old))
        s=s.replace(old,new)
    open(path,'wb').write((b'\xef\xbb\xbf' if bom else b'')+s.encode('utf-8'))
