#!/bin/bash
# run inside `vp run --with-repo`: checks every given seed against the snapshot of /repo
# each argument: <seed-id>[:<prop>,<prop>...]  (default: every claimed property)
export VERIF_REPO=${VP_RUN_REPO:-/repo}
for a in "$@"; do s=${a%%:*}; p=""; [ "$a" != "$s" ] && p=$(echo ${a#*:} | tr ',' ' '); echo "=== seed $s"; python3 tools/seedtest.py $s $p; done
