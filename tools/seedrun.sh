#!/bin/bash
# run inside `vp run --with-repo`: checks every given seed against the snapshot of /repo
export VERIF_REPO=${VP_RUN_REPO:-/repo}
for s in "$@"; do echo "=== seed $s"; python3 tools/seedtest.py $s; done
