#!/usr/bin/env python3
"""Apply a seeded change to /repo, run the quick checks, undo it.  usage: seedtest.py <seed-id> [props...]"""
import json, os, subprocess, sys, time
VERIF = os.path.dirname(os.path.dirname(os.path.abspath(__file__)))
REPO = os.environ.get("VERIF_REPO", "/repo")
sid = sys.argv[1]
sd = os.path.join(VERIF, "seeded", sid)
manifest = json.load(open(os.path.join(VERIF, "MANIFEST.json")))
props = sys.argv[2:] or [c["property_id"] for c in manifest["checks"]]
isgit = subprocess.run(["git", "-C", REPO, "rev-parse", "--show-toplevel"], stdout=subprocess.PIPE, stderr=subprocess.DEVNULL).stdout.strip().decode() == os.path.realpath(REPO)
patch = os.path.join(sd, "patch.diff")
if isgit:
    assert subprocess.run(["git", "-C", REPO, "status", "--porcelain", "--untracked-files=no"], stdout=subprocess.PIPE).stdout.strip() == b"", "repo not clean"
    r = subprocess.run(["git", "-C", REPO, "apply", patch], stderr=subprocess.PIPE, universal_newlines=True)
    if r.returncode:
        # line numbers drifted: three-way merge (which also stages the result - unstaged again right away)
        r = subprocess.run(["git", "-C", REPO, "apply", "--3way", patch], stderr=subprocess.PIPE, universal_newlines=True)
        subprocess.run(["git", "-C", REPO, "reset", "-q"])
else:
    r = subprocess.run(["patch", "-p1", "-s", "-d", REPO, "-i", patch], stderr=subprocess.PIPE, stdout=subprocess.PIPE, universal_newlines=True)
if r.returncode:
    print("patch does not apply:", (r.stderr or "")[:500]); sys.exit(2)
res = {}
try:
    for p in props:
        t0 = time.time()
        q = subprocess.run([os.path.join(VERIF, "bin", "verif"), "check", p, "--tier", "quick"], stdout=subprocess.PIPE, stderr=subprocess.STDOUT, universal_newlines=True)
        viol = [l for l in q.stdout.splitlines() if l.startswith("VIOLATION")]
        res[p] = dict(exit=q.returncode, violations=len(viol), first=(viol[0][:400] if viol else ""), secs=round(time.time() - t0, 1))
        print(p, q.returncode, len(viol), (viol[0][:300] if viol else ""), flush=True)
        if q.returncode not in (0, 1):
            print(q.stdout[-1500:])
finally:
    if isgit:
        subprocess.run(["git", "-C", REPO, "checkout", "--", "."])
    else:
        subprocess.run(["patch", "-p1", "-s", "-R", "-d", REPO, "-i", patch])
json.dump(res, open(os.path.join(sd, "result.json"), "w"), indent=1)
print("detected by:", [p for p, v in res.items() if v["exit"] == 1])
