#!/usr/bin/env python3
"""Write seeded/<id>/meta.json (what the change is, what it needs to manifest, what was run to confirm it) and
seeded/MATRIX.md (which check caught which change in the last seedtest run).
usage: seedmeta.py [confirm-output-files...]   (lines `SEED <id> APPLY ok DEMO_WITHOUT 0 DEMO_WITH 1 SUITE_RC 0 ...`
from tools/seedconfirm.sh)"""
import json, os, re, sys
VERIF = os.path.dirname(os.path.dirname(os.path.abspath(__file__)))

SEEDS = {
 "C01": ("C_::deepReportUtilize stores the head's prong (`requested = h.prong`) instead of the best sub-state's",
         "a `utilize` resolved through a nested utilitarian region (report path) whose best sub-state is not the one with the parent's prong index"),
 "C02": ("RegistryT::requestImmediate (orthogonal variant): above the first composite ancestor a requested prong is only written when the ACTIVE prong differs - a prong requested by an earlier request of the batch is no longer overridden (this undoes the repair of D21)",
         "two requests in one step whose paths part at a composite region above the later one's first composite ancestor, on a machine with orthogonal regions"),
 "C03": ("C_::deepReenter (switch branch): the active prong is switched before wideExit, so the NEW sub-state is exited and the old one never is",
         "a self-transition (re-enter) of a region whose requested sub-state differs from the active one"),
 "C04": ("S_::deepEntryGuard: the injected entry guards run before `cancelledBefore` is captured, so a cancellation made by an injected guard is taken as already present and the state reports approval",
         "a state with handlers injected through StateT<...> whose injected entryGuard cancels the pending transitions"),
 "C05": ("C_::compoActive(ConstControl&) indexes compoActive with REGION_ID instead of COMPO_INDEX",
         "query() on a machine where an orthogonal region precedes a composite one (region ids and compo indices differ)"),
 "C06": ("FullControlBaseT::changeTo: `stateId_ <= _regionStateId` - a change to the region's own head counts as a transition out of the region",
         "a sub-state requesting changeTo(<its region head>) (payload-less) in a step where that region's plan would advance"),
 "C07": ("PlanT::remove no longer resets the removed task's `prev` link",
         "remove a non-first task while iterating, reuse the freed slot as the first task of an empty plan, then remove that task"),
 "C08": ("OS_::wideLoadResumable calls wideLoadRequested for the remaining sub-states",
         "load() of a buffer whose resumable (inactive) orthogonal region has a second or later composite sub-region"),
 "C09": ("R_::processTransitions: registry.backup(backup) after an approved round removed",
         "a step with two substitution rounds of which the second is vetoed or a no-op"),
 "C10": ("InstanceT<EmptyContext + built-in RNGT>: base-class order swapped, the machine is constructed (and activated) before the generator",
         "no context, built-in generator, automatic activation, initial activation through a Random region, storage pre-filled with non-zero bytes"),
 "C11": ("DynamicArrayT::emplace(const TArgs&...): `_count <= CAPACITY`",
         "replayTransitions with more transitions than COMPO_COUNT * SUBSTITUTION_LIMIT (only the const-lvalue overload is affected)"),
 "C12": ("OS_::wideReportUtilize evaluates the remaining sub-states with wideReportChange",
         "utilize on a region with an orthogonal option whose second or later child is a non-utilitarian region whose best sub-state is not its initial one"),
 "C13": ("RegistryT::isPendingEnter (orthogonal variant): the ancestor walk stops at the first orthogonal fork (`parent.forkId > 0`)",
         "a guard asking isPendingEnter for a state below an orthogonal region"),
 "C14": ("R_::initialEnter: `pendingTransitions = _core.requests` after `_core.requests.clear()` - in the substitution rounds of the initial activation the guards see an empty pending list and the requests (with their payloads) never reach currentTransitions / previousTransitions",
         "a request (with payload) issued from an entry guard during the initial activation"),
 "C15": ("FullControlT::updatePlan (payload variant only): cyclic tasks no longer clear their origin's success mark immediately",
         "PayloadT<> configuration, plan with a self-link followed by another link from the same origin, origin succeeds"),
 "C16": ("S_::deepReenter logs with the member pointer of `enter`",
         "interface logging (no verbose log) with a state that defines reenter but not enter, or enter but not reenter"),
 "C17": ("OSI_::ACTIVE_BITS uses max() instead of the sum over the sub-regions of an orthogonal region",
         "serialization enabled, an orthogonal region with two or more composite children, not hidden by a larger sibling"),
 "C18": ("BitArrayT::CBits::operator bool: tail mask `(1 << _width) - 1`",
         "const view of width > 8 and not a multiple of 8, empty, with a bit set in its last byte beyond the view"),
 "C19": ("TaskListT::clear() no longer resets `_last`",
         "insert k >= 1 items, clear(), insert more than CAPACITY - k items"),
 "C20": ("IntRandomT<8>::jump(): `s3 ^= _state[2]`",
         "64-bit xoshiro256**, jump(), at least three draws afterwards"),
 "C05b": ("OS_::wideReact: the `if (!control._consumed)` guard before the remaining sub-states removed (react phase only; undoes part of the repair of D7)",
          "a non-last plain sub-state of an orthogonal region consumes the event in react(); later plain siblings still receive react()"),
 "C06b": ("FullControlT::updatePlan (payload variant only): an inactive origin no longer ends the walk over the plan's tasks (`it && isActive(origin)` moved into the if)",
          "PayloadT<> machine, a plan in which a task with an inactive origin precedes a task whose origin is active and succeeded"),
 "C08b": ("OSI_::ACTIVE_BITS uses max() instead of the sum (the same slip as seed C17, written against C08)",
          "an orthogonal region with two or more composite sub-regions on the path that determines the buffer size; enough resumable marks to cross the short buffer"),
 "C09b": ("R_::replayTransitions no longer calls registry.clearRequests() after deepChangeToRequested",
          "a replica driven by replayTransitions: a batched step leaves a requested prong of a region that is not entered; a later plain request into that region head follows the stale prong"),
 "C10b": ("CoreT copy constructor no longer copies transitionTargets",
          "transition history enabled; copy an instance after a step that performed a transition and ask lastTransitionTo() on the copy"),
 "C11b": ("RegistryT::requestScheduled (orthogonal variant): `parent.forkId != 0` - a negative fork id indexes compoResumable",
          "a machine with an orthogonal region; schedule a direct sub-state of that region (or the apex)"),
 "C13b": ("CS_::wideRequestResume routes the left half through wideRequestChangeResumable",
          "resume of an outer region whose resumable sub-state lies in the left half and is itself a non-Resumable region holding a non-initial resumable sub-state"),
 "C16b": ("GuardControlT::cancelPendingTransitions reports (and sets the flag) only if not already cancelled",
          "two cancellations within one guard pass (orthogonal siblings, or one guard cancelling twice)"),
 "C02c": ("R_::reset re-activates with `_apex.deepRequestRestart` instead of `deepRequestChange`: every region on the re-entry path takes its first sub-state instead of choosing by its declared strategy",
          "reset() on a machine with a Selectable / Utilitarian / Random region on the default-activation path whose choice is not the first sub-state"),
 "C04c": ("OS_::wideForwardExitGuard (last-prong overload without prong mask) forwards to deepForwardEntryGuard: the exit guards below the last prong are never asked, the entry guards there run twice",
          "a request aimed at an orthogonal root itself while the last prong holds a composite region with a pending change whose leaving state has an exit guard (that cancels)"),
 "C07c": ("PlanT::remove, tail branch: `_bounds.last = _bounds.first` instead of `link.prev`",
          "a plan with three or more tasks, its last task removed, then another append to the same region: the middle tasks drop out of the list while occupying slots"),
 "C12c": ("C_::resolveRandom: `cursor > utilities[i]` instead of `>=` - the cumulative intervals become closed at the top",
          "a generator output r with r * sum exactly on a cumulative boundary (r = 0 with a zero-utility first top-rank sub-state, or an exact partial sum)"),
 "C14c": ("R_::processTransitions passes the index inside the round (`i`) instead of `currentTransitions.count() + i` to applyRequest (undoes the repair of D14): lastTransitionTo / lastTransition of states activated in a later round point at a request of the first round",
          "transition history; a step with two approved substitution rounds (a guard that requests without cancelling); ask the state activated by the second round for its last transition / payload"),
}


def main():
    confirm = {}
    for f in sys.argv[1:]:
        for line in open(f):
            m = re.match(r"SEED (\S+) APPLY (\S+) DEMO_WITHOUT (\d+) DEMO_WITH (\d+) SUITE_RC (\d+)(.*)", line)
            if m:
                confirm[m.group(1)] = dict(patch_applies=m.group(2) == "ok", demo_exit_without=int(m.group(3)), demo_exit_with=int(m.group(4)),
                                           suite_exit_with=int(m.group(5)), suite_summary=m.group(6).strip())
    rows = []
    props = sorted(SEEDS)
    for sid in props:
        d = os.path.join(VERIF, "seeded", sid)
        if not os.path.isdir(d):
            continue
        what, needs = SEEDS[sid]
        meta_path = os.path.join(d, "meta.json")
        meta = json.load(open(meta_path)) if os.path.exists(meta_path) else {}
        meta.update(property=sid[:3], change=what, needs_to_manifest=needs,
                    origin="produced by a sub-agent that was given only the property text and a scratch worktree; never committed to /repo",
                    confirm_cmd="tools/seedconfirm.sh %s   (fresh worktree of /repo HEAD under /tmp: demo without / with the patch, then the repository's test suite with it)" % sid,
                    run_cmd="tools/seedtest.py %s   (git apply to the repository under test, quick checks, git checkout -- .)" % sid)
        if sid in confirm:
            meta["confirmed"] = confirm[sid]
        res_path = os.path.join(d, "result.json")
        if os.path.exists(res_path):
            res = json.load(open(res_path))
            meta["detected_by"] = sorted(p for p, v in res.items() if v["exit"] == 1)
            meta["own_check_detects"] = sid[:3] in meta["detected_by"]
            rows.append((sid, meta["detected_by"], res.get(sid[:3], {}).get("first", "")))
        json.dump(meta, open(meta_path, "w"), indent=1)
    with open(os.path.join(VERIF, "seeded", "MATRIX.md"), "w") as f:
        f.write("# Seeded changes x checks (last `tools/seedtest.py` run, quick tier)\n\n")
        f.write("A row is one seeded change (named after the property it was written against); `own` = caught by that property's check; "
                "`also` = other checks that alarmed on the same change (collateral: the change really alters those projections too, "
                "or breaks a neighbouring property as well).\n\n| seed | own | also | first report of the own check |\n|---|---|---|---|\n")
        for sid, det, first in rows:
            own = "yes" if sid[:3] in det else "**no**"
            also = ", ".join(p for p in det if p != sid[:3]) or "-"
            first = re.sub(r"replay=\S+\s+#\s*", "", first.replace("VIOLATION property=%s " % sid[:3], ""))[:160].replace("|", "/")
            f.write("| %s | %s | %s | %s |\n" % (sid, own, also, first))
    print("meta written for", len(props), "seeds;", len(rows), "with results")


if __name__ == "__main__":
    main()
