#!/usr/bin/env python3
"""Regenerates MANIFEST.json from the table below (single place to edit claims)."""
import json, os
VERIF = os.path.dirname(os.path.dirname(os.path.abspath(__file__)))

COMMON_NOTE = ("Trusted: TLC 1.8 + CommunityModules; the generated executor and its read-only access probe; g++/clang. "
               "Bounded: fixture family of machine structures (<= 25 states), callbacks acting through scripts (one acting hook per call "
               "exhaustively in the model, <= 3 per call in random walks), exact rational utilities.")

CLAIMS = {
 "C01": ("model_checking", "invariant WellFormedState/WellFormedCallbacks on the bounded models (TLC BFS) + the same predicate evaluated as a monitor on every observed post-state and in-callback snapshot of the executor traces", "4 C01",
         "TLC invariant + trace-validation monitor (spec/Rules.tla WellFormedObs)"),
 "C02": ("model_checking", "action property P_Prescribed (operational layer equals the top-down declarative rules for single requests, destination/untouched-region clauses for batches) + functional equality of active/resumable prongs of every executed step with the operational specification applied to the observed pre-state", "4 C02",
         "TLC action property + resynchronising trace validation (functional oracle)"),
 "C03": ("model_checking", "action property P_Balanced on the models + lifecycle monitor carried across the whole life of every executor instance (enter/exit alternate, nesting, delivered only to entered states, this-pointer and origin id of every callback)", "4 C03",
         "TLC action property + trace-validation monitor over whole histories"),
 "C04": ("model_checking", "action property P_Guards (guards before lifecycle, vetoed step changes nothing, rounds <= limit) + functional equality of the guard callback sequence with what each guard saw as pending/current, and of the post-state of vetoed steps", "4 C04",
         "TLC action property + trace validation (functional + monitors)"),
 "C05": ("model_checking", "action property P_Delivery (declarative traversal list per phase and order incl. consume) + functional equality of the update/react/query callback sequence and a reach monitor on observed data", "4 C05",
         "TLC action property + trace validation (functional)"),
 "C06": ("model_checking", "operational plan semantics (spec/Hfsm.tla UpdatePlan/DeepUpdatePlans) validated step by step against the executor: plan callbacks, task lists, success/failure marks, requests issued by plans; open finding D9 handled by a deviation switch", "4 C06",
         "resynchronising trace validation (functional oracle) with deviation switch"),
 "C07": ("model_checking", "plans as per-region task sequences under a machine-wide capacity (spec/Hfsm.tla ApplyOp plan_append/plan_clear/plan_remove/plan_sweep): the iterated contents, the results of append (refused at capacity, nothing changes), removal during iteration and clearing are compared step by step with the executor; TLA+ monitors (spec/Trace.tla PlanStorage) walk the raw taskBounds/taskLinks/tasks arrays read through the probe: acyclic doubly linked lists inside the pool, slot contents = iteration, pairwise disjoint, lengths adding up to tasks.count(), unlinked slots clean; scripted storage scenarios (removal of the last / first / a middle task followed by appends, refill past capacity) besides the random plan operations", "4 C07",
         "resynchronising trace validation (functional oracle) + storage monitors"),
 "C09": ("model_checking", "action property P_Replay on the bounded models (TLC BFS: the history a processing step recorded, replayed on its pre-state, reproduces the step's configuration for every reachable state x call x callback script, whatever rounds / vetoes / substitutions the step took) + functional equality of previousTransitions and transition targets of every executed step with the operational specification, replica walks (mon.replay.*)", "4 C09",
         "TLC action property + resynchronising trace validation (functional oracle + replica monitors)"),
 "C13": ("model_checking", "invariant ResumeNamed on the bounded models (TLC BFS: in every reachable state, for every destination, a resume activates in each region it enters the sub-state isResumable named - at most one per region - else the first) + functional equality of isActive/activeSubState/isResumable/isScheduled/isPending* answers after every call and inside guards, plus idle and resume monitors; open finding D10", "4 C13",
         "TLC invariant + trace validation (functional + monitors)"),
 "C14": ("model_checking", "payload tokens in pending/current/previous transitions compared field by field with the operational specification for int / 32-byte over-aligned / 3-byte payload types; monitors mon.payload.* (a payload that should be seen by a guard, a lifecycle callback, in previousTransitions and through lastTransitionTo of every state)", "4 C14",
         "resynchronising trace validation (functional oracle on payload projections)"),
 "C08": ("model_checking", "invariant RoundTrip + action properties P_Load / P_SaveUntouched on the save/load pair model (every reachable configuration x every buffer saved in another one); on the code: save() compared bit for bit with Encode of the specification, load() of buffers saved in unrelated configurations judged against the decoded buffer (active, resumable, exit/enter sets)", "4 C08",
         "TLC invariant/action property on pair model + trace validation (functional + monitors)"),
 "C17": ("exploration", "spec/Structure.tla evaluated by TLC for every declaration term with <= 5 (quick) / 6 (thorough) states plus wide/deep/random families; the expected identifiers and counts become static_asserts compiled against the headers", "4 C17",
         "TLC-evaluated reference (Structure.tla) -> generated static_asserts"),
 "C18": ("model_checking", "ideal set / bit-sequence semantics (spec/Bits.tla); TLC computes the effect of every (state, operation) pair for small capacities and of sampled states for larger ones, every pair replayed on the real templates, also under ASan", "4 C18",
         "TLC-generated test vectors per model transition, replayed on the implementation"),
 "C19": ("model_checking", "ideal pool / bounded array (spec/Containers.tla); TLC enumerates every valid operation sequence to a depth bound, the real TaskListT trace is validated against it (returned slot must be free, count, contents), arrays replayed functionally", "4 C19",
         "TLC-enumerated behaviours replayed on the implementation (trace validation of slot choice)"),
 "C20": ("exploration", "spec/Prng.tla written from the published splitmix / xoshiro algorithms and anchored by published values; TLC walks the generators step by step and compares seeded state, outputs and jump() of all four bundled generators", "4 C20",
         "TLC as executable reference (state machine per generator step)"),
 "C10": ("exploration", "differential exploration judged by the deterministic specification: instances placement-constructed in differently pre-filled storage, copies driven in lock-step with their originals, and the built-in generator's choices compared with the stream derived from spec/Prng.tla; open finding D11", "4 C10",
         "trace validation of fill/copy variants + TLC reference stream for the built-in generator"),
 "C11": ("exploration", "the specification supplies the histories (over-capacity queues and plans, over-long replays, copies) and decides that rejected operations leave the state as specified; AddressSanitizer/UBSan, the assertion hook (HFSM2_VERIF) and an allocation counter observe the replays", "4 C11",
         "sanitizer / assertion-hook / allocation-counter observers on specification-driven conformance replays"),
 "C12": ("model_checking", "action property P_Prescribed on models with utilitarian/random regions nested in composite and orthogonal regions: the operational report/resolve walk equals the declarative rule (leftmost arg-max; head utility x would-be sub-state; orthogonal mean; top rank only; cumulative interval containing r*sum) for utility/rank/generator-output patterns incl. ties, zeros and interval boundaries; on the code the same fixtures are instantiated with an exact rational utility type so that equality with the specification is the oracle, and the number of generator draws is compared per call", "4 C12",
         "TLC action property + trace validation with exact rational utilities"),
 "C15": ("exploration", "the same command lists on executors built under a matrix of feature sets, both header flavours and two compilers/standards; every trace is validated against the one specification (feature-dependent reports blanked per build) and the behaviours of all builds of a fixture are compared with each other", "4 C15",
         "trace validation of every build variant against one specification + cross-build comparison"),
 "C16": ("model_checking", "the operational specification carries the logger (m.lg / m.log: HFSM2_LOG_STATE_METHOD before every wrapper, transitions incl. dropped ones, task / plan statuses, cancellations, select / utility / random resolutions with their rational values); an attached logger's record of every call is compared by kind and as one interleaved sequence, with the logger attached at construction, attached and detached mid-run, under verbose logging and under interface logging with states that define only some methods (fixture bare); attaching never changes any other projection; structure()[i].isActive = isActive(i) monitor and functional equality of activityHistory with the saturating-counter rule after every call; open finding D29 handled by a deviation switch", "4 C16",
         "resynchronising trace validation (functional oracle incl. the logger) + monitor, with deviation switch"),
}


def main():
    props = [json.loads(l) for l in open(os.path.join(VERIF, "properties.jsonl"))]
    na_reasons = json.load(open(os.path.join(VERIF, "tools", "not_applicable.json")))
    m = {
        "version": 1,
        "setup_cmd": "bin/verif setup",
        "hooks": {"guard": "HFSM2_VERIF", "enable": "-DHFSM2_VERIF -DHFSM2_ENABLE_ASSERT",
                  "baseline_off_cmd": "bin/verif baseline", "source_commits": json.load(open(os.path.join(VERIF, "tools", "hook_commits.json"))), "add_only": True},
        "engines": [
            {"name": "tlc-trace-validation", "path": "spec/Trace.tla", "serves_properties": sorted(CLAIMS), "kind_free_text": "TLC evaluating the operational TLA+ specification against executor traces, per-step resynchronising"},
            {"name": "tlc-bfs", "path": "spec/Machine.tla", "serves_properties": ["C01", "C02", "C03", "C04", "C05"], "kind_free_text": "TLC breadth-first model checking of operational layer |= declarative rules"},
            {"name": "executor", "path": "harness/", "serves_properties": sorted(CLAIMS), "kind_free_text": "generated C++ executor driving hfsm2 instances built from /repo's working tree"}],
        "checks": [],
        "notes": "See DESIGN.md. Machine-level properties share one conformance campaign and one model-checking run per (repo tree, verif tree, tier, seed), cached under .cache/.",
        "not_applicable": [],
    }
    for p in props:
        pid = p["id"]
        if pid in CLAIMS:
            cat, text, ref, tech = CLAIMS[pid]
            m["checks"].append({
                "property_id": pid,
                "quick_cmd": "bin/verif check %s --tier quick" % pid,
                "thorough_cmd": "bin/verif check %s --tier thorough" % pid,
                "evidence_file": "evidence/%s.json" % pid,
                "replay_cmd_template": "bin/verif replay {path}",
                "engine": "tlc-trace-validation",
                "level_claimed": {"category": cat, "text": text, "design_ref": "DESIGN.md section " + ref},
                "level_note": COMMON_NOTE,
                "technique": tech})
        else:
            m["not_applicable"].append({"property_id": pid, "reason": na_reasons.get(pid, "not yet built; specification stage pending (DESIGN.md section 10)")})
    json.dump(m, open(os.path.join(VERIF, "MANIFEST.json"), "w"), indent=1)


if __name__ == "__main__":
    main()
