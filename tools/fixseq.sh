#!/bin/bash
# usage: fixseq.sh <diff> <message-file>
set -e
cd /repo
git apply "$1"
cmake --build _build > /tmp/fix_build.log 2>&1 || { echo BUILD-FAIL; git checkout -- .; exit 1; }
if ./_build/hfsm2_test > /tmp/fix_test.log 2>&1; then
  git add -A development include && git commit -q -F "$2" && echo COMMITTED $(git log --oneline | head -1)
else
  echo TEST-FAIL; tail -30 /tmp/fix_test.log; git checkout -- .; exit 1
fi
