#!/bin/bash
# usage: seedconfirm.sh <seed-id>   -- confirms a seed in a scratch worktree of /repo's HEAD (outside /repo and /verif)
# prints: APPLY ok|fail, DEMO_WITHOUT rc, DEMO_WITH rc, SUITE ok|fail
s=$1; V=$(cd "$(dirname "$0")/.." && pwd); W=/tmp/confirm/$s
mkdir -p /tmp/confirm; git -C /repo worktree remove --force $W 2>/dev/null; rm -rf $W
git -C /repo worktree add --detach $W HEAD -q || exit 2
cd $W
cp $V/seeded/$s/demo.cpp .
g++ -std=c++14 -I$W/include demo.cpp -o demo0 2>/dev/null && ./demo0 >/dev/null 2>&1; r0=$?
if git apply --3way $V/seeded/$s/patch.diff 2>/dev/null || git apply $V/seeded/$s/patch.diff; then a=ok; else a=fail; fi
g++ -std=c++14 -I$W/include demo.cpp -o demo1 2>/dev/null && ./demo1 >/dev/null 2>&1; r1=$?
cmake -G Ninja -B _build -DCMAKE_BUILD_TYPE=RelWithDebInfo -DHFSM2_BUILD_TESTS=ON -DCMAKE_CXX_FLAGS=-Wno-error > /dev/null 2>&1 && cmake --build _build > build.log 2>&1 && ./_build/hfsm2_test > test.log 2>&1; rt=$?
echo "SEED $s APPLY $a DEMO_WITHOUT $r0 DEMO_WITH $r1 SUITE_RC $rt $(tail -3 test.log | grep -o 'test cases:[^|]*|[^|]*|[^|]*' )"
cd /; git -C /repo worktree remove --force $W; rm -rf $W
